"""Worker process of a check: runs one shard spec of one property and writes its counters as JSON.

    python -m vp.shard <ID> <tier> <seed> <shard index> <spec.json> <out.json>
"""
from __future__ import annotations

import importlib
import json
import sys
import time
import traceback

from .core import Ctx, Result, canon


def load_module(prop: str):
    return importlib.import_module(f"vp.props.{prop.lower()}")


def run_replay(mod, spec: dict, ctx: Ctx) -> None:
    """Feed saved cases straight to the oracle, bypassing Hypothesis."""
    for item in spec["cases"]:
        case = item["case"]
        res: Result = mod.check_case(case)
        ctx.record(case, res)
        ctx.labels["replayed:" + item.get("origin", "?")] += 1
        if res.failures:
            from .core import bucket_of
            ctx.add_failure(case, [f"[replay {item.get('name', '?')}] " + m for m in res.failures], bucket=bucket_of(res.failures))


def run_known(mod, spec: dict, ctx: Ctx) -> None:
    """Re-run the specific inputs of the listed known findings; report which still reproduce."""
    out = []
    for entry in spec["entries"]:
        reproduces, text = mod.reproduce_known(entry)
        out.append({"key": entry["key"], "reproduces": bool(reproduces), "text": text})
    ctx.extra["known"] = out


def main(argv: list[str]) -> int:
    prop, tier, seed, idx, spec_path, out_path = argv
    with open(spec_path) as f:
        payload = json.load(f)
    spec, known = payload["spec"], payload["known"]
    t0 = time.time()
    try:
        mod = load_module(prop)
        if "torch" in sys.modules:  # loaded only by the repository's run package; OMP_NUM_THREADS=1 is exported too
            sys.modules["torch"].set_num_threads(1)
        ctx = Ctx(prop, tier, int(seed), int(idx), spec, known)
        kind = spec.get("kind")
        if kind == "replay":
            run_replay(mod, spec, ctx)
        elif kind == "known":
            run_known(mod, spec, ctx)
        else:
            mod.run_shard(spec, ctx)
        result = ctx.result()
        result["wall_s"] = time.time() - t0
    except BaseException:  # noqa: BLE001
        with open(out_path, "w") as f:
            json.dump({"harness_error": traceback.format_exc(), "spec": canon(spec)}, f)
        return 2
    with open(out_path, "w") as f:
        json.dump(result, f)
    return 0


if __name__ == "__main__":
    sys.exit(main(sys.argv[1:]))
