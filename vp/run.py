"""Runner of one check.

    python -m vp.run <ID> quick|thorough
    python -m vp.run <ID> --replay <file>

Exit status: 0 = the property held on everything explored (known findings are listed, not alarms);
1 = at least one unlisted violation (a line ``VIOLATION property=<ID> replay=<path>`` is printed per root
cause); 2 = the checking machinery itself failed (never a verdict about the repository).
"""
from __future__ import annotations

import importlib
import json
import os
import shutil
import subprocess
import sys
import tempfile
import time
from collections import Counter
from pathlib import Path

from .core import canon, dumps, hex_hash

VERIF = Path(os.environ.get("VERIF_DIR", Path(__file__).resolve().parent.parent))
JOBS = int(os.environ.get("VERIF_JOBS", "16"))


def load_known(prop: str) -> tuple[list[dict], list[dict]]:
    path = VERIF / "known_findings.json"
    if not path.exists():
        return [], []
    entries = json.loads(path.read_text())["findings"]
    mine = [e for e in entries if e["property"] == prop]
    return [e for e in mine if e["status"] == "known"], [e for e in mine if e["status"] == "fixed"]


def replay_items(prop: str, fixed: list[dict]) -> list[dict]:
    items = []
    for e in fixed:
        for i, case in enumerate(e.get("regressions", [])):
            items.append({"name": f"fixed:{e['key']}#{i}", "origin": "fixed-finding", "case": case})
    for origin, d in (("corpus", VERIF / "corpus" / prop), ("replays", VERIF / "replays")):
        if not d.is_dir():
            continue
        for p in sorted(d.glob("*.json")):
            if origin == "replays" and not p.name.startswith(prop + "-"):
                continue
            try:
                payload = json.loads(p.read_text())
            except ValueError:
                continue
            if payload.get("property", prop) != prop:
                continue
            items.append({"name": p.name, "origin": origin, "case": payload["case"]})
    return items


def run_shards(prop: str, tier: str, seed: int, specs: list[dict], known: list[dict]) -> list[dict]:
    """Run every spec in its own OS process (at most JOBS at a time); return their result dicts."""
    work = Path(tempfile.mkdtemp(prefix=f"vp-{prop}-"))
    results: list[dict | None] = [None] * len(specs)
    try:
        pending = list(enumerate(specs))
        running: dict[int, subprocess.Popen] = {}
        # longest shards first
        pending.sort(key=lambda t: -float(t[1].get("cost", 1)))
        while pending or running:
            while pending and len(running) < JOBS:
                idx, spec = pending.pop(0)
                sp = work / f"spec{idx}.json"
                sp.write_text(json.dumps({"spec": spec, "known": known}))
                out = work / f"out{idx}.json"
                cmd = [sys.executable, "-B", "-m", "vp.shard", prop, tier, str(seed), str(idx), str(sp), str(out)]
                log = open(work / f"log{idx}.txt", "w")
                running[idx] = subprocess.Popen(cmd, stdout=log, stderr=subprocess.STDOUT, cwd=str(VERIF))
            done = [i for i, p in running.items() if p.poll() is not None]
            if not done:
                time.sleep(0.05)
                continue
            for i in done:
                p = running.pop(i)
                out = work / f"out{i}.json"
                if out.exists():
                    results[i] = json.loads(out.read_text())
                else:
                    results[i] = {"harness_error": f"shard {i} exited with {p.returncode} and no result"}
                if "harness_error" in results[i] or p.returncode != 0:
                    log_txt = (work / f"log{i}.txt").read_text()[-3000:]
                    results[i].setdefault("harness_error", f"exit {p.returncode}")
                    results[i]["log"] = log_txt
                    results[i]["spec"] = specs[i]
    finally:
        shutil.rmtree(work, ignore_errors=True)
    return [r for r in results if r is not None]


def write_replay(prop: str, failure: dict) -> Path:
    d = VERIF / "replays"
    d.mkdir(exist_ok=True)
    path = d / f"{prop}-{hex_hash(failure['case'])}.json"
    path.write_text(json.dumps({"property": prop, "case": failure["case"], "failures": failure["msgs"],
                                "bucket": failure["bucket"]}, indent=1, sort_keys=True))
    return path


def main(argv: list[str]) -> int:
    if len(argv) < 2:
        print(__doc__)
        return 2
    prop = argv[0].upper()
    mod = importlib.import_module(f"vp.props.{prop.lower()}")
    seed = int(os.environ.get("VERIF_SEED", "1") or 1)
    known, fixed = load_known(prop)
    t0 = time.time()

    if argv[1] == "--replay":
        path = Path(argv[2])
        payload = json.loads(path.read_text())
        specs = [{"kind": "replay", "cases": [{"name": path.name, "origin": "cmdline", "case": payload["case"]}]}]
        results = run_shards(prop, "replay", seed, specs, known)
        r = results[0]
        if "harness_error" in r:
            print(r["harness_error"], r.get("log", ""), file=sys.stderr)
            return 2
        if r["failures"]:
            for f in r["failures"]:
                for m in f["msgs"]:
                    print("  " + m)
            print(f"VIOLATION property={prop} replay={path}")
            return 1
        print(f"replay {path}: property {prop} holds on this case")
        return 0

    tier = argv[1]
    if tier not in ("quick", "thorough"):
        print(__doc__)
        return 2
    os.environ["VERIF_TIER"] = tier

    specs = list(mod.plan(tier))
    for s in specs:
        s.setdefault("kind", "search")
    items = replay_items(prop, fixed)
    if items:
        specs.append({"kind": "replay", "cases": items, "cost": 0.5})
    if known:
        specs.append({"kind": "known", "entries": known, "cost": 0.5})

    results = run_shards(prop, tier, seed, specs, known)

    errors = [r for r in results if "harness_error" in r]
    if errors:
        r = errors[0]
        spec_txt = str({k: v for k, v in (r.get("spec") or {}).items() if k not in ("cases", "entries")})[:300]
        print(f"HARNESS ERROR in {len(errors)} shard(s); first: {spec_txt}:\n{r['harness_error'][-3000:]}\n{r.get('log', '')[-1500:]}", file=sys.stderr)
        return 2

    evaluations = sum(r["evaluations"] for r in results)
    nt: set[int] = set()
    labels: Counter = Counter()
    excluded: Counter = Counter()
    inconclusive: Counter = Counter()
    samples: list = []
    nt_samples: list = []
    failures: list[dict] = []
    extra: dict = {}
    known_status: list[dict] = []
    shard_info = []
    for r in results:
        nt.update(r["nt_hashes"])
        labels.update(r["labels"])
        excluded.update(r["excluded"])
        inconclusive.update(r["inconclusive"])
        if r["spec"].get("kind") == "search":
            if len(samples) < 4:
                samples.extend(r["samples"][:1])
            if len(nt_samples) < 6:
                nt_samples.extend(r["nt_samples"][:2])
        for f in r["failures"]:
            if not any(g["bucket"] == f["bucket"] for g in failures):
                failures.append(f)
        for k, v in r["extra"].items():
            if k == "known":
                known_status.extend(v)
            elif isinstance(v, (int, float)) and not isinstance(v, bool) and isinstance(extra.get(k, 0), (int, float)):
                extra[k] = extra.get(k, 0) + v
            elif isinstance(v, list) and isinstance(extra.get(k, []), list):
                extra[k] = extra.get(k, []) + v
            else:
                extra[k] = v
        shard_info.append({"spec": {k: v for k, v in r["spec"].items() if k != "cases" and k != "entries"},
                           "evaluations": r["evaluations"], "wall_s": round(r.get("wall_s", 0), 2)})

    wall = time.time() - t0
    for ks in known_status:
        if ks["reproduces"]:
            print(f"KNOWN-FINDING: property={prop} {ks['text']}")
        else:
            print(f"note: listed known finding {ks['key']} of {prop} does not reproduce on this tree ({ks['text']})")

    replay_paths = []
    for f in failures:
        path = write_replay(prop, f)
        replay_paths.append(str(path.relative_to(VERIF)))

    coverage = {
        "evaluations": evaluations,
        "distinct_nontrivial": len(nt),
        "rule": mod.RULE,
        "samples": (nt_samples + samples)[:8] or ["(no case generated)"],
        "labels": dict(sorted(labels.items())),
        "shards": shard_info,
        "excluded_known": dict(excluded),
        "inconclusive": dict(inconclusive),
        "known_findings": known_status,
        "replays_written": replay_paths,
    }
    exhaustive = extra.pop("exhaustive", None)
    if exhaustive is not None:
        coverage["exhaustive"] = bool(exhaustive)
    coverage.update(extra)
    evidence = {
        "property_id": prop,
        "tier": tier,
        "seed": seed,
        "level": mod.LEVEL,
        "coverage": coverage,
        "assumptions": list(mod.ASSUMPTIONS),
        "wall_s": round(wall, 2),
        "violations": len(failures),
    }
    # evidence/ only ever describes runs against /repo itself; runs against a scratch copy (VERIF_REPO) go elsewhere
    scratch = os.environ.get("VERIF_REPO", "/repo").rstrip("/") != "/repo"
    ev_dir = VERIF / (".scratch-evidence" if scratch else "evidence")
    ev_dir.mkdir(exist_ok=True)
    (ev_dir / f"{prop}.json").write_text(json.dumps(canon(evidence), indent=1))

    print(f"{prop} {tier} seed={seed}: {evaluations} cases, {len(nt)} distinct non-trivial, "
          f"{len(failures)} violation(s), {wall:.1f}s")
    if failures:
        for f, path in zip(failures, replay_paths):
            for m in f["msgs"][:5]:
                print("  " + m)
            print(f"VIOLATION property={prop} replay={path}")
        return 1
    return 0


if __name__ == "__main__":
    try:
        code = main(sys.argv[1:])
    except SystemExit:
        raise
    except BaseException:  # noqa: BLE001 - any crash of the machinery is a harness error, never a verdict
        import traceback
        traceback.print_exc()
        code = 2
    sys.exit(code)
