"""I/O fault injector for C20.

For the duration of a ``with Injector(directory, crash_at, mode)`` block, ``io.open`` / ``builtins.open`` (hence
``Path.open``, ``read_text``, ``write_text``, ``tempfile``), the returned file objects' ``write`` / ``writelines`` /
``flush`` / ``close`` / ``truncate`` and ``os.replace`` / ``os.rename`` / ``os.fsync`` / ``os.remove`` / ``os.unlink`` /
``shutil.copyfile``-style opens are intercepted for paths inside ``directory`` and numbered.  When event number
``crash_at`` is about to execute, the fault fires:

* mode 'kill'      -> ``os._exit(77)``: nothing after the crash point runs, user-space buffers are lost (SIGKILL model;
                      use inside a forked child);
* mode 'torn'      -> for a write event, the first half of the chunk is written and pushed to the OS, then ``os._exit``;
                      other events behave like 'kill';
* mode 'interrupt' -> ``KeyboardInterrupt`` is raised and Python unwinds normally (``with`` blocks close and flush).
* mode 'ioerror'   -> ``TimeoutError`` (an ``OSError`` subclass) is raised instead: an interruption that error handling may swallow.

With ``crash_at=None`` the injector only counts events (dry run).
"""
from __future__ import annotations

import builtins
import io
import os


class FileProxy:
    def __init__(self, inj: "Injector", f, name: str, mode: str):
        self._inj, self._f, self._name, self._mode = inj, f, name, mode

    def __getattr__(self, item):
        return getattr(self._f, item)

    def __enter__(self):
        return self

    def __exit__(self, *exc):
        self.close()
        return False

    def __iter__(self):
        return iter(self._f)

    def write(self, data):
        self._inj.event("write", self._name, f=self._f, data=data)
        return self._f.write(data)

    def writelines(self, lines):
        for line in lines:
            self.write(line)

    def flush(self):
        self._inj.event("flush", self._name)
        return self._f.flush()

    def truncate(self, *a):
        self._inj.event("truncate", self._name)
        return self._f.truncate(*a)

    def close(self):
        if not self._f.closed:
            self._inj.event("close", self._name)
        return self._f.close()


class Injector:
    def __init__(self, directory: str, crash_at: int | None, mode: str = "kill"):
        self.dir = os.path.realpath(directory) + os.sep
        self.crash_at = crash_at
        self.mode = mode
        self.count = 0
        self.log: list[str] = []
        self.fired = False
        self._saved = {}

    # -- bookkeeping ------------------------------------------------------------------------------------
    def _inside(self, path) -> bool:
        try:
            p = os.path.realpath(os.fspath(path))
        except TypeError:
            return False
        return (p + os.sep).startswith(self.dir) or p.startswith(self.dir)

    def event(self, kind: str, name: str, f=None, data=None) -> None:
        idx = self.count
        self.count += 1
        if len(self.log) < 5000:
            self.log.append(f"{kind}:{os.path.basename(name)}")
        if self.crash_at is not None and idx == self.crash_at and not self.fired:
            self.fired = True
            if self.mode == "interrupt":
                raise KeyboardInterrupt(f"injected at event {idx} ({kind} {name})")
            if self.mode == "ioerror":
                # an interruption that arrives as an OSError subclass (a watchdog alarm handler raising TimeoutError, EINTR, EIO ...)
                raise TimeoutError(f"injected at event {idx} ({kind} {name})")
            if self.mode == "torn" and kind == "write" and f is not None and data:
                try:
                    f.write(data[: max(1, len(data) // 2)])
                    f.flush()
                except Exception:  # noqa: BLE001
                    pass
            os._exit(77)

    # -- patched functions --------------------------------------------------------------------------------
    def _open(self, file, mode="r", *a, **kw):
        if isinstance(file, int) or not self._inside(file):
            return self._saved["io.open"](file, mode, *a, **kw)
        writing = any(c in mode for c in "wax+")
        self.event("open-" + ("w" if writing else "r"), os.fspath(file))
        f = self._saved["io.open"](file, mode, *a, **kw)
        if writing:
            # a second crash point right after the open took effect (the file may just have been created or truncated):
            # code that copies with os.sendfile / copy_file_range performs no further Python-level write before close
            self.event("opened-w", os.fspath(file))
        return FileProxy(self, f, os.fspath(file), mode) if writing else f

    def _wrap2(self, key):
        orig = self._saved[key]

        def fn(src, dst, *a, **kw):
            if self._inside(src) or self._inside(dst):
                self.event(key.split(".")[1], os.fspath(dst))
            return orig(src, dst, *a, **kw)
        return fn

    def _wrap1(self, key):
        orig = self._saved[key]

        def fn(target, *a, **kw):
            if not isinstance(target, int) and self._inside(target):
                self.event(key.split(".")[1], os.fspath(target))
            elif isinstance(target, int) and key == "os.fsync":
                self.event("fsync", "fd")
            return orig(target, *a, **kw)
        return fn

    def _wrap_fd(self, key):
        orig = self._saved[key]

        def fn(*a, **kw):
            self.event(key.split(".")[1], "fd")      # descriptor-level copy inside the guarded block
            return orig(*a, **kw)
        return fn

    def __enter__(self):
        self._saved = {"io.open": io.open, "builtins.open": builtins.open, "os.replace": os.replace, "os.rename": os.rename,
                       "os.fsync": os.fsync, "os.remove": os.remove, "os.unlink": os.unlink, "os.truncate": os.truncate}
        io.open = self._open
        builtins.open = self._open
        os.replace = self._wrap2("os.replace")
        os.rename = self._wrap2("os.rename")
        os.fsync = self._wrap1("os.fsync")
        os.remove = self._wrap1("os.remove")
        os.unlink = self._wrap1("os.unlink")
        os.truncate = self._wrap1("os.truncate")
        for name in ("sendfile", "copy_file_range"):
            if hasattr(os, name):
                self._saved["os." + name] = getattr(os, name)
                setattr(os, name, self._wrap_fd("os." + name))
        return self

    def __exit__(self, *exc):
        io.open = self._saved["io.open"]
        builtins.open = self._saved["builtins.open"]
        os.replace = self._saved["os.replace"]
        os.rename = self._saved["os.rename"]
        os.fsync = self._saved["os.fsync"]
        os.remove = self._saved["os.remove"]
        os.unlink = self._saved["os.unlink"]
        os.truncate = self._saved["os.truncate"]
        for name in ("sendfile", "copy_file_range"):
            if "os." + name in self._saved:
                setattr(os, name, self._saved["os." + name])
        return False
