"""Shared machinery of the checks: cases, results, counters, Hypothesis driving, failure bucketing.

A *case* is a plain JSON-serialisable dict holding everything the oracle needs.  Every verdict is made
by a property module's ``check_case(case) -> Result``; Hypothesis, the exhaustive enumerations and the
replay tier all go through it.
"""
from __future__ import annotations

import hashlib
import json
import math
import os
import sys
import traceback
from collections import Counter
from dataclasses import dataclass, field
from typing import Any, Callable

REPO_PKG = "incomplete_cooperative"


# ----------------------------------------------------------------------------------------------------
# canonical encoding


def _canon(obj: Any) -> Any:
    """Make ``obj`` JSON-serialisable and deterministic (numpy scalars/arrays, tuples, sets)."""
    try:
        import numpy as np
    except Exception:  # pragma: no cover
        np = None  # type: ignore
    if obj is None or isinstance(obj, (bool, str)):
        return obj
    if isinstance(obj, int):
        return obj
    if isinstance(obj, float):
        return obj
    if np is not None:
        if isinstance(obj, np.bool_):
            return bool(obj)
        if isinstance(obj, np.integer):
            return int(obj)
        if isinstance(obj, np.floating):
            return float(obj)
        if isinstance(obj, np.ndarray):
            return _canon(obj.tolist())
    if isinstance(obj, dict):
        return {str(k): _canon(v) for k, v in obj.items()}
    if isinstance(obj, (list, tuple)):
        return [_canon(x) for x in obj]
    if isinstance(obj, (set, frozenset)):
        return sorted(_canon(x) for x in obj)
    return repr(obj)


def canon(obj: Any) -> Any:
    return _canon(obj)


def dumps(case: Any) -> str:
    return json.dumps(_canon(case), sort_keys=True, separators=(",", ":"))


def case_hash(case: Any) -> int:
    """64-bit hash of the canonical encoding."""
    return int.from_bytes(hashlib.blake2b(dumps(case).encode(), digest_size=8).digest(), "big")


def hex_hash(case: Any) -> str:
    return "%016x" % case_hash(case)


# ----------------------------------------------------------------------------------------------------
# results


@dataclass
class Result:
    """Outcome of one oracle evaluation."""

    failures: list[str] = field(default_factory=list)
    nontrivial: bool = False
    labels: list[str] = field(default_factory=list)
    excluded: list[str] = field(default_factory=list)   # sub-claims skipped because of a listed known finding
    inconclusive: list[str] = field(default_factory=list)

    def fail(self, msg: str) -> None:
        if len(self.failures) < 20:
            self.failures.append(msg)

    def label(self, *labels: str) -> None:
        self.labels.extend(labels)

    @property
    def ok(self) -> bool:
        return not self.failures


class Violation(AssertionError):
    """Raised inside a Hypothesis test body when the oracle rejects a case."""


class HarnessError(Exception):
    """Something is wrong with the checking machinery itself (never a verdict about the repository)."""


def repo_frame(tb) -> str | None:
    """Innermost frame of the traceback that lies in the repository package, as 'file:function'."""
    found = None
    for fs in traceback.extract_tb(tb):
        fn = fs.filename.replace("\\", "/")
        if f"/{REPO_PKG}/" in fn and "/site-packages/" not in fn:
            found = f"{fn.split('/' + REPO_PKG + '/')[-1]}:{fs.name}"
    return found


def guarded(fn: Callable[..., Result]) -> Callable[..., Result]:
    """Decorator for ``check_case``.

    An exception whose traceback passes through repository code is a failure of the property (the
    generators only build inputs the code is documented to accept); an exception that never entered the
    repository is a harness error and is re-raised.
    """
    def wrapper(case, *a, **kw) -> Result:
        try:
            return fn(case, *a, **kw)
        except (Violation, HarnessError, KeyboardInterrupt):
            raise
        except Exception as exc:  # noqa: BLE001
            frame = repo_frame(exc.__traceback__)
            if frame is None:
                raise
            res = Result()
            res.fail(f"exception in repository code: {type(exc).__name__} @ {frame} :: {str(exc)[:200]}")
            res.labels.append(f"exc:{type(exc).__name__}@{frame}")
            return res
    wrapper.__name__ = fn.__name__
    wrapper.__doc__ = fn.__doc__
    wrapper.__wrapped__ = fn  # type: ignore[attr-defined]
    return wrapper


def bucket_of(msgs: list[str]) -> str:
    """Root-cause bucket of a failure: first message up to the first ':' or digits stripped."""
    if not msgs:
        return "?"
    m = msgs[0]
    head = m.split(" :: ")[0]
    return head[:120]


# ----------------------------------------------------------------------------------------------------
# per-shard context


class Ctx:
    """Counters of one shard (one OS process)."""

    MAX_SAMPLES = 3

    def __init__(self, prop: str, tier: str, seed: int, shard: int, spec: dict, known: list[dict]):
        self.prop = prop
        self.tier = tier
        self.base_seed = seed
        self.shard = shard
        self.seed = seed * 1000 + shard
        self.spec = spec
        self.known = known
        self.known_keys = {k["key"] for k in known}
        self.evaluations = 0
        self.nt_hashes: set[int] = set()
        self.labels: Counter = Counter()
        self.samples: list = []
        self.nt_samples: list = []
        self.failures: list[dict] = []
        self.excluded: Counter = Counter()
        self.inconclusive: Counter = Counter()
        self.extra: dict[str, Any] = {}
        self.last_failure: tuple | None = None
        self.current_case: Any = None       # machines keep the history executed so far here (see run_machine)

    # -- recording -------------------------------------------------------------------------------
    def record(self, case: Any, res: Result, sample: Any = None) -> None:
        self.evaluations += 1
        for lab in res.labels:
            self.labels[lab] += 1
        for ex in res.excluded:
            self.excluded[ex] += 1
        for ic in res.inconclusive:
            self.inconclusive[ic] += 1
        show = sample if sample is not None else case
        if len(self.samples) < self.MAX_SAMPLES:
            self.samples.append(_canon(show))
        if res.nontrivial:
            h = case_hash(case)
            if h not in self.nt_hashes:
                self.nt_hashes.add(h)
                if len(self.nt_samples) < self.MAX_SAMPLES:
                    self.nt_samples.append(_canon(show))

    def judge(self, case: Any, res: Result, sample: Any = None) -> None:
        """Record and raise ``Violation`` if the oracle rejected the case (for use inside Hypothesis)."""
        self.record(case, res, sample)
        if res.failures:
            self.last_failure = (_canon(case), list(res.failures))
            raise Violation("; ".join(res.failures[:3]))

    def add_failure(self, case: Any, msgs: list[str], bucket: str | None = None) -> None:
        b = bucket or bucket_of(msgs)
        if any(f["bucket"] == b for f in self.failures):
            return
        self.failures.append({"case": _canon(case), "msgs": msgs[:10], "bucket": b})

    def judge_enum(self, case: Any, res: Result, sample: Any = None) -> None:
        """Record inside an exhaustive enumeration (no Hypothesis): collect failures, keep going."""
        self.record(case, res, sample)
        if res.failures:
            self.add_failure(case, res.failures)

    # -- Hypothesis driving -------------------------------------------------------------------------
    def settings(self, max_examples: int, shrink: bool = True, **kw):
        from hypothesis import HealthCheck, Phase, settings
        phases = [Phase.explicit, Phase.generate] + ([Phase.shrink] if shrink else [])
        return settings(max_examples=max_examples, database=None, deadline=None, derandomize=False,
                        report_multiple_bugs=False, phases=phases, print_blob=False,
                        suppress_health_check=list(HealthCheck), **kw)

    def run_given(self, strategy, check_case: Callable[[Any], Result], max_examples: int,
                  shrink: bool = True, sub_seed: int = 0, sample_of: Callable[[Any], Any] | None = None) -> None:
        """Drive ``check_case`` with Hypothesis over ``strategy``; a failure is shrunk and collected."""
        import hypothesis
        from hypothesis import given

        ctx = self

        @hypothesis.seed(self.seed * 10 + sub_seed)
        @self.settings(max_examples, shrink)
        @given(strategy)
        def test(case):
            res = check_case(case)
            ctx.judge(case, res, sample_of(case) if sample_of else None)

        self.last_failure = None
        try:
            test()
        except Violation:
            assert self.last_failure is not None
            self.add_failure(*self.last_failure)
        except hypothesis.errors.Flaky as exc:
            self._flaky(exc)
        except BaseExceptionGroup as grp:  # pragma: no cover
            raise HarnessError(f"unexpected exception group {grp!r}")

    def run_machine(self, machine_cls, max_examples: int, steps: int, shrink: bool = True, sub_seed: int = 0) -> None:
        """Drive a RuleBasedStateMachine whose invariants call ``ctx.judge`` (attribute ``ctx`` is set here)."""
        import hypothesis
        from hypothesis.stateful import run_state_machine_as_test

        machine_cls.ctx = self
        self.last_failure = None
        st = self.settings(max_examples, shrink, stateful_step_count=steps)
        try:
            run_state_machine_as_test(hypothesis.seed(self.seed * 10 + sub_seed)(machine_cls), settings=st)
        except Violation:
            assert self.last_failure is not None
            self.add_failure(*self.last_failure)
        except hypothesis.errors.Flaky as exc:
            self._flaky(exc)
        except (HarnessError, KeyboardInterrupt):
            raise
        except Exception as exc:  # noqa: BLE001
            # an exception raised while a rule or invariant was executing repository code: a failure of the property on
            # the history executed so far (Hypothesis has already shrunk it; the last executed history is the minimal one)
            frame = repo_frame(exc.__traceback__)
            if frame is None or self.current_case is None:
                raise
            self.add_failure(self.current_case, [f"exception in repository code: {type(exc).__name__} @ {frame} :: {str(exc)[:200]}"])

    def _flaky(self, exc) -> None:
        """The same case failed once and passed when Hypothesis re-ran it in the same process.

        check_case is a pure function of (case, code under test), so this means the code under test keeps state between
        calls (a per-process cache, a module-level generator...).  The observed failure is real and is reported, marked as
        history dependent; without a recorded failure it is a harness problem."""
        if self.last_failure is None:
            raise HarnessError(f"flaky check without a recorded failure: {exc}") from exc
        case, msgs = self.last_failure
        self.add_failure(case, [m + "  [observed once; passed when re-run in the same process: the outcome depends on what the "
                                    "process executed before]" for m in msgs])

    # -- result -----------------------------------------------------------------------------------------
    def result(self) -> dict:
        return {
            "shard": self.shard,
            "spec": _canon(self.spec),
            "evaluations": self.evaluations,
            "nt_hashes": sorted(self.nt_hashes),
            "labels": dict(self.labels),
            "samples": self.samples,
            "nt_samples": self.nt_samples,
            "failures": self.failures,
            "excluded": dict(self.excluded),
            "inconclusive": dict(self.inconclusive),
            "extra": _canon(self.extra),
        }


# ----------------------------------------------------------------------------------------------------
# numeric helpers


EPS = sys.float_info.epsilon


def feq(a: float, b: float, tol: float) -> bool:
    if a == b:
        return True
    if math.isnan(a) or math.isnan(b):
        return False
    return abs(a - b) <= tol


def fle(a: float, b: float, tol: float) -> bool:
    return a <= b + tol


def env_int(name: str, default: int) -> int:
    try:
        return int(os.environ.get(name, default))
    except ValueError:
        return default
