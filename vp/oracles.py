"""Reference models.  Nothing here imports the repository: plain Python over bitmasks.

Coalitions are bitmasks 0 .. 2^n-1; a game is a list ``v`` of 2^n numbers with v[0] == 0.
On int / dyadic inputs every operation below (add, subtract, compare, max, min) is exact in float64.
"""
from __future__ import annotations

import itertools
import math
from fractions import Fraction
from functools import lru_cache


def popcount(x: int) -> int:
    return bin(x).count("1")


def members(mask: int) -> list[int]:
    return [i for i in range(mask.bit_length()) if mask >> i & 1]


def submasks(mask: int):
    """All sub-masks of ``mask`` (including 0 and mask itself)."""
    s = mask
    while True:
        yield s
        if s == 0:
            return
        s = (s - 1) & mask


def proper_splits(mask: int):
    """Unordered splits of ``mask`` into two non-empty disjoint parts (A, mask ^ A), each once."""
    low = mask & -mask
    rest = mask ^ low
    s = rest
    while True:
        a = s | low          # the part containing the lowest player
        if a != mask:
            yield a, mask ^ a
        if s == 0:
            return
        s = (s - 1) & rest


@lru_cache(maxsize=None)
def by_size(n: int) -> tuple[int, ...]:
    return tuple(sorted(range(1 << n), key=lambda m: (popcount(m), m)))


def minimal_masks(n: int) -> set[int]:
    return {0, (1 << n) - 1} | {1 << i for i in range(n)}


# ----------------------------------------------------------------------------------------------------
# class predicates, textbook definitions


def sa_violations(v, n: int, tol: float = 0.0):
    """Pairs of disjoint non-empty coalitions with v(A)+v(B) > v(A|B) + tol."""
    out = []
    for s in range(1, 1 << n):
        for a, b in proper_splits(s):
            if v[a] + v[b] > v[s] + tol:
                out.append((a, b))
    return out


def is_sa(v, n: int, tol: float = 0.0) -> bool:
    for s in range(1, 1 << n):
        vs = v[s] + tol
        for a, b in proper_splits(s):
            if v[a] + v[b] > vs:
                return False
    return True


def is_monotone_nonincreasing(v, n: int, tol: float = 0.0) -> bool:
    """S subset of T  =>  v(S) >= v(T)."""
    for t in range(1 << n):
        for i in members(t):
            if v[t ^ (1 << i)] < v[t] - tol:
                return False
    return True


def is_supermodular(v, n: int, tol: float = 0.0) -> bool:
    """v(S+i) - v(S) <= v(T+i) - v(T) + tol for S subset of T, i not in T."""
    full = (1 << n) - 1
    for t in range(1 << n):
        for i in members(full ^ t):
            rhs = v[t | 1 << i] - v[t]
            for s in submasks(t):
                if s == t:
                    continue
                if v[s | 1 << i] - v[s] > rhs + tol:
                    return False
    return True


# ----------------------------------------------------------------------------------------------------
# superadditive bounds


def ref_lower_partition(v, known: set[int], n: int) -> list:
    """lower(S) = best total of a partition of S into known coalitions (the statement of C02).

    Requires all singletons known (so a partition always exists).
    """
    lower = [0] * (1 << n)
    kl = sorted(known - {0})
    for s in by_size(n):
        if s == 0:
            continue
        low = s & -s
        best = None
        for t in kl:
            if t & low and t & s == t:
                cand = v[t] + lower[s ^ t]
                if best is None or cand > best:
                    best = cand
        lower[s] = best
    return lower


def ref_lower_splits(v, known: set[int], n: int) -> list:
    """lower(S) = v(S) if known else max over two-part splits of lower(A) + lower(S \\ A).

    This is what both superadditive computers are specified to return on *any* game (superadditive or
    not): known rows keep their value.
    """
    lower = [0] * (1 << n)
    for s in by_size(n):
        if s == 0:
            continue
        if s in known:
            lower[s] = v[s]
            continue
        best = None
        for a, b in proper_splits(s):
            cand = lower[a] + lower[b]
            if best is None or cand > best:
                best = cand
        lower[s] = best
    return lower


def ref_upper(v, known: set[int], n: int, lower: list) -> list:
    """upper(S) = v(S) if known else min over known T strictly containing S of v(T) - lower(T \\ S)."""
    full = (1 << n) - 1
    upper = [0] * (1 << n)
    for s in range(1 << n):
        if s in known:
            upper[s] = v[s]
            continue
        rest = full ^ s
        best = None
        for add in submasks(rest):
            if add == 0:
                continue
            t = s | add
            if t in known:
                cand = v[t] - lower[add]
                if best is None or cand < best:
                    best = cand
        upper[s] = best
    return upper


def ref_sa_bounds(v, known: set[int], n: int, partition_form: bool = False):
    lower = ref_lower_partition(v, known, n) if partition_form else ref_lower_splits(v, known, n)
    return lower, ref_upper(v, known, n, lower)


def sa_pairs(n: int) -> list[tuple[int, int]]:
    out = []
    for s in range(1, 1 << n):
        out.extend(proper_splits(s))
    return out


def lp_extreme(v, known: set[int], n: int, target: int, sense: int):
    """min (sense=+1) / max (sense=-1) of x_target over superadditive completions of (v restricted to known).

    Returns (status, optimum, full value vector of the optimal completion).  scipy HiGHS.
    """
    import numpy as np
    from scipy.optimize import linprog

    unknown = [s for s in range(1 << n) if s not in known]
    col = {s: j for j, s in enumerate(unknown)}
    rows, rhs = [], []
    for a, b in sa_pairs(n):
        s = a | b
        row = [0.0] * len(unknown)
        const = 0.0       # x_a + x_b - x_s <= 0
        for m, sign in ((a, 1.0), (b, 1.0), (s, -1.0)):
            if m in col:
                row[col[m]] += sign
            else:
                const += sign * v[m]
        if any(row):
            rows.append(row)
            rhs.append(-const)
        # constraints among known values only hold by assumption (the true game is superadditive)
    c = [0.0] * len(unknown)
    c[col[target]] = float(sense)
    res = linprog(c, A_ub=np.array(rows) if rows else None, b_ub=np.array(rhs) if rows else None,
                  bounds=[(None, None)] * len(unknown), method="highs")
    if res.status != 0:
        return res.status, None, None
    full = [v[s] if s in known else float(res.x[col[s]]) for s in range(1 << n)]
    return 0, float(res.x[col[target]]), full


# ----------------------------------------------------------------------------------------------------
# Shapley value and gap functions


@lru_cache(maxsize=None)
def shapley_coeffs_by_orderings(n: int) -> dict[tuple[int, int], Fraction]:
    """coefficient of v(S) in phi_i, from the definition: average marginal contribution over n! orderings."""
    coeff: dict[tuple[int, int], Fraction] = {}
    nf = math.factorial(n)
    for order in itertools.permutations(range(n)):
        before = 0
        for p in order:
            coeff[(p, before | 1 << p)] = coeff.get((p, before | 1 << p), 0) + 1
            coeff[(p, before)] = coeff.get((p, before), 0) - 1
            before |= 1 << p
    return {k: Fraction(c, nf) for k, c in coeff.items() if c and k[1]}


@lru_cache(maxsize=None)
def shapley_coeffs_closed(n: int) -> dict[tuple[int, int], Fraction]:
    """Same map from the closed form s!(n-s-1)!/n!."""
    nf = math.factorial(n)
    coeff: dict[tuple[int, int], Fraction] = {}
    for i in range(n):
        for s in range(1 << n):
            if s >> i & 1:
                continue
            k = popcount(s)
            w = Fraction(math.factorial(k) * math.factorial(n - k - 1), nf)
            coeff[(i, s | 1 << i)] = coeff.get((i, s | 1 << i), 0) + w
            if s:
                coeff[(i, s)] = coeff.get((i, s), 0) - w
    return coeff


def shapley_exact(v, n: int, orderings_up_to: int = 7) -> list[Fraction]:
    coeff = shapley_coeffs_by_orderings(n) if n <= orderings_up_to else shapley_coeffs_closed(n)
    phi = [Fraction(0)] * n
    fv = [Fraction(x) for x in v]
    for (i, s), c in coeff.items():
        if s:
            phi[i] += c * fv[s]
    return phi


def exploitability_exact(lower, upper, n: int) -> Fraction:
    """sum over S of (upper - lower) / C(n, |S|)  (empty and grand coalitions have width 0 when known)."""
    total = Fraction(0)
    for s in range(1, 1 << n):
        w = Fraction(upper[s]) - Fraction(lower[s])
        if w:
            total += w / math.comb(n, popcount(s))
    return total


def gap_l1(lower, upper) -> float:
    return math.fsum(abs(u - l) for l, u in zip(lower, upper))


def gap_linf(lower, upper) -> float:
    return max((abs(u - l) for l, u in zip(lower, upper)), default=0.0)


def gap_l2(lower, upper) -> float:
    return math.sqrt(math.fsum((u - l) * (u - l) for l, u in zip(lower, upper)))


def gap_exploitability(lower, upper, n: int) -> float:
    return float(exploitability_exact(lower, upper, n))


def ref_gap(name: str, lower, upper, n: int) -> float:
    if name == "exploitability":
        return gap_exploitability(lower, upper, n)
    if name == "l1_norm":
        return gap_l1(lower, upper)
    if name == "l2_norm":
        return gap_l2(lower, upper)
    if name == "linf_norm":
        return gap_linf(lower, upper)
    raise KeyError(name)


def gap_tol(name: str, lower, upper, n: int) -> float:
    """Stated comparison tolerance for a gap value computed in float64 by the library."""
    scale = max([abs(x) for x in lower] + [abs(x) for x in upper] + [1e-300])
    eps = 2.220446049250313e-16
    if name == "exploitability":
        # the implementation sums n Shapley values of 2^(n-1) terms each with weights up to (n-1)!, then subtracts v(N)
        return 64 * n * (1 << n) * eps * scale
    if name == "l2_norm":
        return 16 * (1 << n) * eps * scale
    return 4 * (1 << n) * eps * scale
