"""C03  Cached and reference superadditive bound computers are interchangeable.

Stateful differential search: a pool of game *pairs* (one object per computer, identical knowledge) with different
player counts lives in one interpreter; rules create pairs, mutate the knowledge of a pair and recompute, in
arbitrary interleavings, so the memoised coalition structure of one size is live while another is used.
"""
from __future__ import annotations

import numpy as np
from hypothesis import strategies as st
from hypothesis.stateful import RuleBasedStateMachine, invariant, precondition, rule

from ..core import Ctx, Result, guarded
from ..games import EXACT, arbitrary_games, knowledge_sets, scale_of, seeded_knowledge, superadditive_games
from ..oracles import minimal_masks, ref_sa_bounds

ID = "C03"
LEVEL = "exploration"
RULE = ("Hypothesis RuleBasedStateMachine over a pool of (uncached, cached) game-object pairs with different n in 2..8 "
        "inside one process; values of ANY class (arbitrary or superadditive; int/dyadic/float); rules new_pair, reveal, "
        "unreveal, reset, compute, compute-cached-twice in arbitrary interleavings. Oracle: differential - bit-identical "
        "tables on exact values, allclose(rtol=1e-12) on floats - plus an independent closed-form reference so the two "
        "cannot drift together. Non-trivial: the history used >= 2 different n AND some pair was recomputed after a "
        "knowledge change; distinct = hash of the operation list.")
LEVEL_TEXT = ("Differential generated-input search over interleaved histories with several player counts alive in one "
              "interpreter; equality is exact where arithmetic is exact. Explores, does not prove, the for-all over games, "
              "knowledge sets and interleavings.")
LEVEL_NOTE = "Trusted: numpy byte comparison, the harness's reference recursion (second opinion only). n<=8 (n=8 drawn rarely: uncached costs ~0.3s)."
TECHNIQUE = "property-based testing: Hypothesis stateful differential test (cached vs uncached computer) with reference-model cross-check"
ASSUMPTIONS = [
    "both computers are defined when K contains the minimal information (the uncached one asserts it)",
    "float values: equality within rtol 1e-12 (the property allows float rounding); exact values: bit-identical",
]


class Sim:
    def __init__(self):
        from .. import repo
        self.repo = repo
        self.pairs: list[dict] = []
        self.ns: set[int] = set()
        self.recomputed_after_change = False

    def apply(self, op: list, res: Result) -> None:
        repo = self.repo
        kind = op[0]
        if kind == "new":
            game, k = op[1], op[2]
            n = game["n"]
            pair = {"n": n, "v": game["v"], "cls": game["cls"], "K": set(k), "dirty": False,
                    "a": repo.new_game(n, "superadditive"), "b": repo.new_game(n, "superadditive_cached")}
            for g in (pair["a"], pair["b"]):
                repo.set_knowledge(g, pair["v"], pair["K"])
            self.pairs.append(pair)
            self.ns.add(n)
            self._compute(pair, res, twice=False)
            return
        pair = self.pairs[op[1]]
        if kind == "reveal":
            for g in (pair["a"], pair["b"]):
                g.reveal_value(pair["v"][op[2]], repo.coal(op[2]))
            pair["K"].add(op[2])
            pair["dirty"] = True
        elif kind == "set_many":
            for g in (pair["a"], pair["b"]):
                g.set_values(np.array([pair["v"][m] for m in op[2]], dtype=float), repo.coals(op[2]))   # bulk set, no reset
            pair["K"].update(op[2])
            pair["dirty"] = True
        elif kind == "unreveal":
            for g in (pair["a"], pair["b"]):
                g.unreveal_value(repo.coal(op[2]))
            pair["K"].discard(op[2])
            pair["dirty"] = True
        elif kind == "reset":
            for g in (pair["a"], pair["b"]):
                repo.set_knowledge(g, pair["v"], op[2])
            pair["K"] = set(op[2])
            pair["dirty"] = True
        elif kind == "compute":
            self._compute(pair, res, twice=False)
        elif kind == "compute2":
            self._compute(pair, res, twice=True)
        else:
            raise ValueError(op)

    def _compute(self, pair: dict, res: Result, twice: bool) -> None:
        pair["a"].compute_bounds()
        pair["b"].compute_bounds()
        if twice:
            pair["b"].compute_bounds()
        if pair["dirty"]:
            self.recomputed_after_change = True
            pair["dirty"] = False
        n, v = pair["n"], pair["v"]
        ka, la, ua = self.repo.table(pair["a"])
        kb, lb, ub = self.repo.table(pair["b"])
        where = f"pair n={n} K={sorted(pair['K'])[:20]}"
        if ka != kb:
            res.fail(f"known-flags-differ :: {where}")
        if pair["cls"] in EXACT:
            if self.repo.table_bytes(pair["a"]) != self.repo.table_bytes(pair["b"]):
                bad = [s for s in range(1 << n) if la[s] != lb[s] or ua[s] != ub[s]][:4]
                res.fail(f"tables-not-bit-identical :: {where}: coalitions {bad} uncached {[(la[s], ua[s]) for s in bad]} cached {[(lb[s], ub[s]) for s in bad]}")
        else:
            if not (np.allclose(la, lb, rtol=1e-12, atol=1e-12 * scale_of(v)) and np.allclose(ua, ub, rtol=1e-12, atol=1e-12 * scale_of(v))):
                bad = [s for s in range(1 << n) if abs(la[s] - lb[s]) > 1e-12 * scale_of(v) or abs(ua[s] - ub[s]) > 1e-12 * scale_of(v)][:4]
                res.fail(f"tables-differ :: {where}: coalitions {bad}")
        if n <= 6:
            rl, ru = ref_sa_bounds(v, pair["K"], n)
            tol = 0.0 if pair["cls"] in EXACT else 1e-9 * scale_of(v)
            for s in range(1 << n):
                if abs(lb[s] - rl[s]) > tol or abs(ub[s] - ru[s]) > tol:
                    res.fail(f"both-differ-from-reference :: {where}: coalition {s} cached [{lb[s]!r},{ub[s]!r}] reference [{rl[s]!r},{ru[s]!r}]")
                    break

    def classify(self, res: Result) -> None:
        res.nontrivial = len(self.ns) >= 2 and self.recomputed_after_change
        res.label(f"distinct-n={len(self.ns)}")
        for n in self.ns:
            res.label(f"n={n}")


@guarded
def check_case(case: dict) -> Result:
    res = Result()
    sim = Sim()
    for i, op in enumerate(case["ops"]):
        sim.apply(op, res)
        if res.failures:
            res.failures = [f"{m} (at op {i})" for m in res.failures]
            break
    sim.classify(res)
    return res


@st.composite
def any_game(draw, max_n: int):
    weights = [2, 3, 3, 4, 4, 5, 5, 6] + ([7] if max_n >= 7 else []) + ([8] if max_n >= 8 else [])
    n = min(draw(st.sampled_from(weights)), max_n)
    if n > 5:
        from ..games import seeded_superadditive
        import random
        seed = draw(st.integers(0, 2**31))
        if draw(st.booleans()):
            return seeded_superadditive(n, seed, draw(st.sampled_from(["int", "dyadic", "float"])))
        rng = random.Random(seed)
        if rng.random() < 0.5:
            vals = [float(rng.randint(-64, 64)) for _ in range(1 << n)]
            how = "seeded-arbitrary"
        else:   # big coalitions worth less than their parts: separates 'split into known parts' from 'split into any parts'
            from ..oracles import popcount
            vals = [float(rng.randint(1, 9)) if popcount(s) == 1 else float(rng.randint(0, 6) - 3 * (popcount(s) - 1)) for s in range(1 << n)]
            how = "seeded-arbitrary-decreasing"
        vals[0] = 0.0
        return {"n": n, "cls": "int", "v": vals, "how": f"{how}({seed})"}
    if draw(st.booleans()):
        return draw(arbitrary_games(n, n))
    return draw(superadditive_games(n, n)) if n >= 3 else draw(arbitrary_games(n, n))


def make_machine(max_n: int):
    class Machine(RuleBasedStateMachine):
        ctx: Ctx = None  # type: ignore[assignment]

        def __init__(self):
            super().__init__()
            self.sim = Sim()
            self.case = {"ops": []}
            self.res = Result()

        def _do(self, op):
            self.case["ops"].append(op)
            self.ctx.current_case = self.case
            self.sim.apply(op, self.res)

        def _k(self, data, n):
            return data.draw(knowledge_sets(n)) if n <= 6 else seeded_knowledge(n, data.draw(st.integers(0, 2**31)))

        @precondition(lambda self: len(self.sim.pairs) < 5)
        @rule(game=any_game(max_n), data=st.data())
        def new_pair(self, game, data):
            self._do(["new", game, self._k(data, game["n"])])

        @precondition(lambda self: self.sim.pairs)
        @rule(p=st.integers(0, 99), i=st.integers(0, 2**20))
        def reveal(self, p, i):
            p %= len(self.sim.pairs)
            pair = self.sim.pairs[p]
            u = [s for s in range(1 << pair["n"]) if s not in pair["K"]]
            if u:
                self._do(["reveal", p, u[i % len(u)]])

        @precondition(lambda self: self.sim.pairs)
        @rule(p=st.integers(0, 99), picks=st.lists(st.integers(0, 2**20), min_size=1, max_size=4))
        def set_many(self, p, picks):
            p %= len(self.sim.pairs)
            pair = self.sim.pairs[p]
            u = [s for s in range(1 << pair["n"]) if s not in pair["K"]]
            if u:
                self._do(["set_many", p, sorted({u[i % len(u)] for i in picks})])

        @precondition(lambda self: self.sim.pairs)
        @rule(p=st.integers(0, 99), i=st.integers(0, 2**20))
        def unreveal(self, p, i):
            p %= len(self.sim.pairs)
            pair = self.sim.pairs[p]
            r = sorted(pair["K"] - minimal_masks(pair["n"]))
            if r:
                self._do(["unreveal", p, r[i % len(r)]])

        @precondition(lambda self: self.sim.pairs)
        @rule(p=st.integers(0, 99), data=st.data())
        def reset(self, p, data):
            p %= len(self.sim.pairs)
            self._do(["reset", p, self._k(data, self.sim.pairs[p]["n"])])

        @precondition(lambda self: self.sim.pairs)
        @rule(p=st.integers(0, 99), twice=st.booleans())
        def compute(self, p, twice):
            p %= len(self.sim.pairs)
            self._do(["compute2" if twice else "compute", p])

        @invariant()
        def holds(self):
            if self.res.failures:
                self.sim.classify(self.res)
                self.ctx.judge(self.case, self.res, _sample(self.case))

        def teardown(self):
            res = Result()
            self.sim.classify(res)
            self.ctx.record(self.case, res, _sample(self.case))

    return Machine


def _sample(case):
    out = []
    for op in case["ops"][:14]:
        if op[0] == "new":
            g = op[1]
            out.append(["new", {"n": g["n"], "cls": g["cls"], "how": g["how"], "v": g["v"][:8] + (["..."] if g["n"] > 3 else [])}, op[2][:16]])
        else:
            out.append(op if op[0] != "reset" else ["reset", op[1], op[2][:16]])
    return out


def plan(tier: str) -> list[dict]:
    if tier == "quick":
        return [{"max_n": 6, "examples": 250, "steps": 30, "cost": 3} for _ in range(4)] + [{"max_n": 7, "examples": 60, "steps": 20, "cost": 4}]
    return ([{"max_n": 6, "examples": 700, "steps": 60, "cost": 6} for _ in range(10)]
            + [{"max_n": 8, "examples": 80, "steps": 40, "cost": 10} for _ in range(6)])


def run_shard(spec: dict, ctx: Ctx) -> None:
    ctx.run_machine(make_machine(spec["max_n"]), spec["examples"], spec["steps"])
