"""C06  The Shapley value is the average marginal contribution over all orderings."""
from __future__ import annotations

from fractions import Fraction

from hypothesis import strategies as st

from ..core import EPS, Ctx, Result, guarded
from ..oracles import members, popcount, shapley_coeffs_by_orderings, shapley_coeffs_closed, shapley_exact

ID = "C06"
LEVEL = "exploration"
RULE = ("(i) Exhaustive coefficient extraction: for each n, every player i and every unit game e_S the computed value must "
        "equal the exact coefficient obtained from the n! orderings (n<=7) or the closed form (n>=8) to a few ulp - this "
        "decides the linear map completely for that n. (ii) Hypothesis: real-valued games (int/dyadic/float, v(empty)=0) "
        "held in a fully known IncompleteCooperativeGame and, for graph-shaped inputs, a GraphCooperativeGame: value == exact "
        "rational sum; efficiency; relabelling by a drawn permutation permutes the values; constructed null player gets 0; "
        "linearity on drawn pairs/scalars; single-player and all-players entry points agree. A few games with n = 11..13 (beyond any plausible internal batch size) for value / efficiency / entry points; single-player evaluations at n = 14..18 and n = 21..23 (beyond 16-bit ids and beyond 64-bit factorials) on a noise game and an increasing game against a vectorised closed form, tolerance 2*2^n*eps*max|marginal|. Non-trivial: game not symmetric "
        "(two coalitions of equal size with different values); distinct = hash of the game.")
LEVEL_TEXT = ("For each listed n the linear map is decided by enumerating its basis against the orderings definition (exhaustive "
              "for that n); generated real games then test that the function really is that linear map (efficiency, symmetry, "
              "null player, linearity). The statement's per-n symbolic proof is replaced by exhaustive basis extraction.")
LEVEL_NOTE = ("Trusted: itertools.permutations-based definition in vp/oracles.py (n<=7), closed form beyond, Fraction arithmetic. "
              "Float tolerance 32*2^n*eps*scale. Basis n<=6 quick, n<=9 thorough; random games to n=10 with all relations, n=11..13 for value / efficiency / entry points; n=14..18, 22 (thorough 21..23) single-player closed form; repeated calls on one object.")
TECHNIQUE = "property-based testing: exhaustive basis enumeration vs n!-orderings oracle + Hypothesis metamorphic relations (permutation, linearity, null player)"
ASSUMPTIONS = ["float64 evaluation: equality within 32*2^n*eps*max|v|", "n<=10 for all relations; n = 11..13 for value / efficiency / entry points; n = 14..23 single-player value only"]


def _lib_shapley(n, v, single: bool):
    from incomplete_cooperative.shapley import compute_shapley_value, compute_shapley_value_for_player
    from .. import repo
    g = repo.full_game(n, v)
    if single:
        return [float(compute_shapley_value_for_player(i, g)) for i in range(n)]
    return [float(x) for x in compute_shapley_value(g)]


def _tol(n, v):
    return 32 * (1 << n) * EPS * max([abs(x) for x in v] + [1.0])


def permute_game(v, n, perm):
    """w(pi(S)) = v(S): player i is renamed perm[i]."""
    w = [0.0] * (1 << n)
    for s in range(1 << n):
        t = 0
        for i in members(s):
            t |= 1 << perm[i]
        w[t] = v[s]
    return w


@st.composite
def games(draw, max_n: int, min_n: int = 1):
    n = draw(st.integers(min_n, max_n))
    cls = draw(st.sampled_from(["int", "dyadic", "float"]))
    size = 1 << n
    if n >= 9:
        # too many values for Hypothesis' buffer: a drawn seed feeds a PRNG (the seed is in the case through the values)
        import random
        rng = random.Random(draw(st.integers(0, 2**32 - 1)))
        v = [rng.uniform(-1e4, 1e4) if cls == "float" else float(rng.randint(-512, 512)) for _ in range(size)]
        if cls == "dyadic":
            v = [x / 64.0 for x in v]
        v[0] = 0.0
        w = [float(rng.randint(-64, 64)) for _ in range(size)]
        w[0] = 0.0
        return {"kind": "game", "n": n, "cls": cls, "v": v, "perm": list(draw(st.permutations(list(range(n))))),
                "null": draw(st.integers(0, n - 1)), "w": w, "alpha": draw(st.sampled_from([-3.0, -1.0, 0.5, 2.0, 7.0])), "graph": None}
    if cls == "float":
        v = draw(st.lists(st.floats(-1e4, 1e4, allow_nan=False, allow_subnormal=False), min_size=size, max_size=size))
    else:
        v = draw(st.lists(st.integers(-512, 512), min_size=size, max_size=size))
        if cls == "dyadic":
            k = draw(st.integers(1, 8))
            v = [x * 2.0 ** -k for x in v]
    v = [float(x) for x in v]
    shape = draw(st.sampled_from(["plain", "plain", "scaled", "dominated"]))
    if shape == "scaled":
        # homogeneity at extreme scales (exact for powers of two): tiny and huge games are games too
        f = 2.0 ** draw(st.sampled_from([-40, -30, -20, 20, 30]))
        v = [x * f for x in v]
    elif shape == "dominated":
        # one coalition structure worth orders of magnitude more than the rest: every other player's marginal
        # contributions are tiny RELATIVE to the values they are added to, yet not zero
        owner = draw(st.integers(0, n - 1))
        big = 2.0 ** draw(st.sampled_from([20, 24, 30]))
        v = [(big if s >> owner & 1 else 0.0) + (x if cls == "float" else round(x)) % 4 for s, x in enumerate(v)]
    v[0] = 0.0
    perm = draw(st.permutations(list(range(n))))
    null = draw(st.integers(0, n - 1))
    size2 = size
    w = draw(st.lists(st.integers(-64, 64), min_size=size2, max_size=size2))
    w = [float(x) for x in w]
    w[0] = 0.0
    alpha = draw(st.sampled_from([-3.0, -1.0, 0.5, 2.0, 7.0]))
    graph = None
    if n >= 2 and draw(st.integers(0, 4)) == 0:
        m = draw(st.lists(st.lists(st.integers(-9, 9), min_size=n, max_size=n), min_size=n, max_size=n))
        graph = [[float(x) for x in row] for row in m]
    return {"kind": "game", "n": n, "cls": cls, "v": v, "perm": list(perm), "null": null, "w": w, "alpha": alpha, "graph": graph}


def _check_large(case: dict) -> Result:
    """n = 14..18: the single-player entry point for a few players against a vectorised closed-form evaluation (numpy float64,
    independent of the repository), on a seeded integer game.  Catches anything that depends on ids beyond 8 / 16 bits."""
    import math
    import random

    import numpy as np
    from incomplete_cooperative.shapley import compute_shapley_value_for_player
    from .. import repo
    res = Result()
    n, seed = case["n"], case["seed"]
    rng = random.Random(seed)
    size = 1 << n
    ids = np.arange(size)
    pop = np.zeros(size, dtype=np.int64)
    for b in range(n):
        pop += (ids >> b) & 1
    noise = np.array([float(rng.randint(-50, 50)) for _ in range(size)])
    # two shapes: zero-mean noise (marginals of both signs: errors in the weights average out, errors in ids do not) and an
    # increasing game 10|S| + noise/16 (marginals all positive: a relative error in a weight shows in full)
    shapes = {"noise": noise.copy(), "increasing": 10.0 * pop + np.round(noise / 16.0)}
    w = np.array([math.factorial(k) * math.factorial(n - k - 1) / math.factorial(n) for k in range(n)])
    for idx, i in enumerate(case["players"]):
        shape = ("increasing", "noise")[idx % 2]
        v = shapes[shape]
        v[0] = 0.0
        g = repo.full_game(n, v)
        without = ids[(ids >> i) & 1 == 0]
        marg = v[without | (1 << i)] - v[without]
        want = float(np.sum(w[pop[without]] * marg))
        got = float(compute_shapley_value_for_player(i, g))
        # both sides sum 2^(n-1) terms w_k * marginal with sum of w = 1: each is within (2^(n-1)) * eps * max|marginal| of the exact
        # value (first-order bound for any summation order, exact integer coefficients below 2^53); the tolerance is twice the sum
        tol = 2.0 * size * EPS * float(np.max(np.abs(marg))) + 8 * EPS * abs(want)
        if abs(got - want) > tol:
            res.fail(f"!=closed-form :: n={n} player {i} ({shape} game): got {got!r}, closed form {want!r}, difference {got - want:.3g} (tolerance {tol:.2g})")
    res.nontrivial = True
    res.label(f"large n={n}")
    return res


@guarded
def check_case(case: dict) -> Result:
    if case["kind"] == "basis":
        return _check_basis(case)
    if case["kind"] == "large":
        return _check_large(case)
    res = Result()
    n, v = case["n"], case["v"]
    size = 1 << n
    tol = _tol(n, v)
    got = _lib_shapley(n, v, single=False)
    got1 = _lib_shapley(n, v, single=True)
    # the same game OBJECT asked several times, through both entry points in both orders; the game must stay what it was
    from incomplete_cooperative.shapley import compute_shapley_value, compute_shapley_value_for_player
    from .. import repo
    obj = repo.full_game(n, v)
    before = repo.table_bytes(obj)
    first = [float(x) for x in compute_shapley_value(obj)]
    desc = {i: float(compute_shapley_value_for_player(i, obj)) for i in reversed(range(n))}
    again = [float(x) for x in compute_shapley_value(obj)]
    if repo.table_bytes(obj) != before:
        res.fail(f"input-game-modified :: n={n}: computing the Shapley value changed the game object's table")
    if first != got or again != got or [desc[i] for i in range(n)] != got:
        res.fail(f"repeated-calls-differ :: n={n}: fresh object {got}, same object 1st {first}, single-player descending {[desc[i] for i in range(n)]}, 2nd {again}")
    exact = shapley_exact(v, n)
    for i in range(n):
        if abs(got[i] - float(exact[i])) > tol:
            res.fail(f"!=orderings-average :: n={n} player {i}: got {got[i]!r}, exact {float(exact[i])!r}")
        if got[i] != got1[i]:
            res.fail(f"entry-points-differ :: n={n} player {i}: all-players {got[i]!r}, single {got1[i]!r}")
    if abs(sum(got) - v[size - 1]) > tol * n:
        res.fail(f"not-efficient :: n={n}: sum {sum(got)!r} != v(N) {v[size - 1]!r}")
    if n >= 11:
        # large player counts: value, efficiency, entry points only (each evaluation walks n * 2^(n-1) coalitions in Python)
        sym = all(len({v[s] for s in range(size) if popcount(s) == k}) <= 1 for k in range(n + 1))
        res.nontrivial = not sym
        res.label(f"n={n}", f"cls={case['cls']}", "large-n")
        return res
    # relabelling
    perm = case["perm"]
    gp = _lib_shapley(n, permute_game(v, n, perm), single=False)
    for i in range(n):
        if abs(gp[perm[i]] - got[i]) > 2 * tol:
            res.fail(f"not-symmetric :: n={n}: player {i} renamed {perm[i]} gets {gp[perm[i]]!r} instead of {got[i]!r}")
    # null player: make player `null` contribute nothing
    z = case["null"]
    vn = [v[s & ~(1 << z)] for s in range(size)]
    gn = _lib_shapley(n, vn, single=False)
    ntol = 0.0 if case["cls"] != "float" and n <= 8 else _tol(n, vn)
    if abs(gn[z]) > ntol:
        res.fail(f"null-player-nonzero :: n={n}: null player {z} gets {gn[z]!r}")
    # linearity
    w, alpha = case["w"], case["alpha"]
    comb = [alpha * a + b for a, b in zip(v, w)]
    gw = _lib_shapley(n, w, single=False)
    gc = _lib_shapley(n, comb, single=False)
    ltol = _tol(n, comb) + abs(alpha) * tol + _tol(n, w)
    for i in range(n):
        if abs(gc[i] - (alpha * got[i] + gw[i])) > ltol:
            res.fail(f"not-linear :: n={n} player {i}: phi(a*v+w)={gc[i]!r} vs a*phi(v)+phi(w)={alpha * got[i] + gw[i]!r}")
    # graph game representation
    if case["graph"] is not None:
        import numpy as np
        from incomplete_cooperative.graph_game import GraphCooperativeGame
        from incomplete_cooperative.shapley import compute_shapley_value
        gg = GraphCooperativeGame(np.array(case["graph"], dtype=float))
        gv = [float(x) for x in gg.get_values()]
        gs = [float(x) for x in compute_shapley_value(gg)]
        ge = shapley_exact(gv, n)
        for i in range(n):
            if abs(gs[i] - float(ge[i])) > _tol(n, gv):
                res.fail(f"graph-game!=orderings-average :: n={n} player {i}: {gs[i]!r} vs {float(ge[i])!r}")
        res.label("graph")
    sym = all(len({v[s] for s in range(size) if popcount(s) == k}) <= 1 for k in range(n + 1))
    res.nontrivial = not sym
    res.label(f"n={n}", f"cls={case['cls']}")
    return res


def _check_basis(case: dict) -> Result:
    res = Result()
    n = case["n"]
    size = 1 << n
    coeff = shapley_coeffs_by_orderings(n) if n <= 7 else shapley_coeffs_closed(n)
    if n <= 7 and coeff != {k: c for k, c in shapley_coeffs_closed(n).items() if c}:
        from ..core import HarnessError
        raise HarnessError(f"closed form and orderings disagree for n={n}")
    count = 0
    for s in range(1, size):
        e = [0.0] * size
        e[s] = 1.0
        for single in (False, True):
            got = _lib_shapley(n, e, single)
            for i in range(n):
                want = float(coeff.get((i, s), Fraction(0)))
                count += 1
                if abs(got[i] - want) > 4 * EPS:
                    res.fail(f"coefficient :: n={n}: coefficient of v({s}) in phi_{i} is {got[i]!r}, orderings give {want!r} ({'single' if single else 'all'}-player entry)")
    res.nontrivial = True
    res.label(f"basis n={n}")
    res.labels.append(f"coefficients={count}")
    return res


def _sample(case):
    if case["kind"] == "basis" or case["n"] <= 4:
        return case
    c = dict(case)
    c["v"] = case["v"][:12] + ["..."]
    c["w"] = case["w"][:6] + ["..."]
    return c


def plan(tier: str) -> list[dict]:
    if tier == "quick":
        return ([{"mode": "basis", "ns": [1, 2, 3, 4, 5], "cost": 1}, {"mode": "basis", "ns": [6], "cost": 2}]
                + [{"mode": "games", "max_n": 7, "examples": 350, "cost": 3} for _ in range(4)]
                + [{"mode": "games", "max_n": 9, "min_n": 8, "examples": 12, "cost": 3},
                   {"mode": "games", "max_n": 12, "min_n": 11, "examples": 3, "cost": 4},
                   {"mode": "large", "ns": [17], "players": 2, "examples": 2, "cost": 4},
                   # beyond 21 players (n-1)! no longer fits a 64-bit integer: one evaluation (~10 s, 0.8 GB)
                   {"mode": "large", "ns": [22], "players": 1, "examples": 1, "cost": 5}])
    return ([{"mode": "basis", "ns": [1, 2, 3, 4, 5, 6], "cost": 2}, {"mode": "basis", "ns": [7], "cost": 5},
             {"mode": "basis", "ns": [8], "cost": 12}, {"mode": "basis", "ns": [9], "cost": 40}]
            + [{"mode": "games", "max_n": 7, "examples": 6000, "cost": 10} for _ in range(8)]
            + [{"mode": "games", "max_n": 10, "min_n": 8, "examples": 80, "cost": 12} for _ in range(4)]
            + [{"mode": "games", "max_n": 13, "min_n": 11, "examples": 12, "cost": 14} for _ in range(3)]
            + [{"mode": "large", "ns": [14, 15, 16, 17, 18], "players": 4, "examples": 10, "cost": 14},
               {"mode": "large", "ns": [21, 22, 23], "players": 1, "examples": 3, "cost": 14}])


def run_shard(spec: dict, ctx: Ctx) -> None:
    if spec["mode"] == "basis":
        for n in spec["ns"]:
            case = {"kind": "basis", "n": n}
            ctx.judge_enum(case, check_case(case))
        ctx.extra["exhaustive_parts"] = [f"all unit games x all players for n in {spec['ns']} against the n! orderings (closed form for n>=8)"]
        return
    if spec["mode"] == "large":
        strat = st.builds(lambda n, seed, ps: {"kind": "large", "n": n, "seed": seed, "players": sorted(set(p % n for p in ps))},
                          st.sampled_from(spec["ns"]), st.integers(0, 2**31), st.lists(st.integers(0, 63), min_size=spec["players"], max_size=spec["players"]))
        ctx.run_given(strat, check_case, spec["examples"], shrink=False)
        return
    ctx.run_given(games(spec["max_n"], spec.get("min_n", 1)), check_case, spec["examples"], sample_of=_sample)
