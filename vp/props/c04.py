"""C04  Approximate superadditive-monotone (SAM) bounds are sound, ordered and self-consistent."""
from __future__ import annotations

from hypothesis import strategies as st

from ..core import Ctx, Result, guarded
from ..games import knowledge_sets, sam_games, scale_of, seeded_knowledge
from ..oracles import is_monotone_nonincreasing, is_sa, members, minimal_masks, ref_sa_bounds, submasks

ID = "C04"
LEVEL = "exploration"
RULE = ("Hypothesis: superadditive monotone-non-increasing game by construction (v(S) chosen anywhere in [best split, "
        "min over sub-coalitions]; negated XOS / coverage / budget / concave-of-size / sums and maxima; library SAM "
        "families by seed) x knowledge set x repetition counts r (consecutive runs 0..10, registered 100/1000 in "
        "thorough). Oracles: hidden game (soundness), reference superadditive bounds AND the library's SA computer "
        "(never looser), r vs r+1 (never loosens), all nested pairs (lower monotone), known sub-/super-coalition caps, "
        "known rows untouched. Non-trivial: K neither minimal nor full AND some SAM bound strictly tighter than the SA "
        "bound; distinct = hash of (game, K, r list).")
LEVEL_TEXT = ("Generated-input search with the hidden game as soundness oracle and the exact SA reference as ordering oracle; "
              "integer-valued SAM games make every comparison exact. Explores the for-all over games, knowledge sets and "
              "repetition counts; no proof.")
LEVEL_NOTE = ("Trusted: the harness's SAM construction (each generated game is re-checked with exact textbook predicates; a "
              "failure there is a harness error, exit 2). n<=6; r=1000 only for n<=4.")
TECHNIQUE = "property-based testing: Hypothesis-generated SAM games vs hidden-truth, reference-bound and metamorphic (r -> r+1) oracles"
ASSUMPTIONS = [
    "only games that really are superadditive and monotone non-increasing are generated (verified exactly per case)",
    "integer-valued games: exact comparisons; library float families compared with 1e-9*scale",
]

LIB_SAM = ["xos", "xos2", "xos3", "xos12", "xs", "xs2", "xs3", "xs6", "oxs", "k_budget_generator", "covg_fn_generator",
           "xos_norm_additive"]


@st.composite
def cases(draw, max_n: int, big_r: bool, min_n: int = 3):
    if min_n > 6:
        game = draw(sam_games(min_n, max_n))          # seeded construction for large n
        n = game["n"]
        k = seeded_knowledge(n, draw(st.integers(0, 2**31)))
        return {"game": game, "K": k, "rs": [draw(st.sampled_from([0, 1, 2]))], "previous": None}
    if draw(st.integers(0, 9)) == 0:
        n = draw(st.integers(3, min(max_n, 5)))
        name = draw(st.sampled_from(LIB_SAM))
        game = {"n": n, "lib": name, "seed": draw(st.integers(0, 2**31))}
    else:
        game = draw(sam_games(3, max_n))
        n = game["n"]
    k = draw(knowledge_sets(n)) if n <= 6 else seeded_knowledge(n, draw(st.integers(0, 2**31)))
    start = draw(st.integers(0, 8))
    rs = list(range(start, min(start + draw(st.integers(2, 4)), 11)))
    if big_r and draw(st.integers(0, 5)) == 0:
        rs.append(100)
        if n <= 4:
            rs.append(1000)
    prev = None
    if draw(st.integers(0, 2)) == 0:
        # the same game objects served ANOTHER game before (as one env object serves successive hidden games)
        pg = draw(sam_games(n, n))
        prev = {"game": pg, "K": draw(knowledge_sets(n)) if n <= 6 else seeded_knowledge(n, draw(st.integers(0, 2**31)))}
    return {"game": game, "K": k, "rs": rs, "previous": prev}


def _materialise(game: dict) -> dict:
    if "lib" not in game:
        return game
    import numpy as np
    from incomplete_cooperative.generators import GENERATORS
    g = GENERATORS[game["lib"]](game["n"], np.random.default_rng(game["seed"]))
    return {"n": game["n"], "cls": "float", "v": [float(x) for x in g.get_values()], "how": "lib:" + game["lib"]}


@guarded
def check_case(case: dict) -> Result:
    from .. import repo
    from ..core import HarnessError
    res = Result()
    game = _materialise(case["game"])
    n, v, cls = game["n"], game["v"], game["cls"]
    K = set(case["K"])
    scale = scale_of(v)
    tol = 0.0 if cls in ("int", "dyadic") else 1e-9 * scale
    if "lib" not in case["game"] and not (is_sa(v, n) and is_monotone_nonincreasing(v, n)):
        raise HarnessError("generated game is not SAM")
    if "lib" in case["game"] and not (is_sa(v, n, tol) and is_monotone_nonincreasing(v, n, tol)):
        res.label("lib-game-not-sam(C10's business)")
        return res
    sa_lo, sa_up = ref_sa_bounds(v, K, n)
    g_sa = repo.new_game(n, "superadditive_cached")
    repo.set_knowledge(g_sa, v, K)
    g_sa.compute_bounds()
    _, lsa_lo, lsa_up = repo.table(g_sa)
    prev = None
    tighter = False
    for r in case["rs"]:
        g = repo.new_game(n, f"sam_apx_{r}")
        if case.get("previous"):
            pv = _materialise(case["previous"]["game"])["v"]
            repo.set_knowledge(g, pv, set(case["previous"]["K"]))
            g.compute_bounds()
        repo.set_knowledge(g, v, K)
        g.compute_bounds()
        known, lo, up = repo.table(g)
        w = f"r={r}" + (" (object reused after another game)" if case.get("previous") else "")
        for s in range(1 << n):
            if known[s] != (s in K):
                res.fail(f"known-flag :: {w}: coalition {s}")
            if s in K:
                if lo[s] != v[s] or up[s] != v[s]:
                    res.fail(f"known-row-changed :: {w}: coalition {s} [{lo[s]!r},{up[s]!r}] value {v[s]!r}")
                continue
            if lo[s] > v[s] + tol:
                res.fail(f"unsound-lower :: {w}: coalition {s} lower {lo[s]!r} > true {v[s]!r}")
            if up[s] < v[s] - tol:
                res.fail(f"unsound-upper :: {w}: coalition {s} upper {up[s]!r} < true {v[s]!r}")
            for ref_lo, ref_up, what in ((sa_lo, sa_up, "reference SA"), (lsa_lo, lsa_up, "library SA")):
                if lo[s] < ref_lo[s] - tol:
                    res.fail(f"looser-than-SA-lower :: {w}: coalition {s} lower {lo[s]!r} < {what} lower {ref_lo[s]!r}")
                if up[s] > ref_up[s] + tol:
                    res.fail(f"looser-than-SA-upper :: {w}: coalition {s} upper {up[s]!r} > {what} upper {ref_up[s]!r}")
            if lo[s] > sa_lo[s] + tol or up[s] < sa_up[s] - tol:
                tighter = True
            if prev is not None and prev[0] + 1 == r:
                if lo[s] < prev[1][s] - tol:
                    res.fail(f"more-repetitions-loosen-lower :: r={prev[0]}->{r}: coalition {s} {prev[1][s]!r} -> {lo[s]!r}")
                if up[s] > prev[2][s] + tol:
                    res.fail(f"more-repetitions-loosen-upper :: r={prev[0]}->{r}: coalition {s} {prev[2][s]!r} -> {up[s]!r}")
            # (5) caps from known neighbours, with the final lower bounds
            for a in submasks(s):
                if a and a != s and a in K and up[s] > v[a] + tol:
                    res.fail(f"upper-exceeds-known-subcoalition :: {w}: upper({s})={up[s]!r} > v({a})={v[a]!r}")
            full = (1 << n) - 1
            for add in submasks(full ^ s):
                if add and (s | add) in K and up[s] > v[s | add] - lo[add] + tol:
                    res.fail(f"upper-exceeds-superset-cap :: {w}: upper({s})={up[s]!r} > v({s | add}) - lower({add}) = {v[s | add] - lo[add]!r}")
        # (4) lower bounds monotone non-increasing along inclusion (all nested pairs, via covers)
        for t in range(1 << n):
            for i in members(t):
                if lo[t ^ (1 << i)] < lo[t] - tol:
                    res.fail(f"lower-not-monotone :: {w}: lower({t ^ (1 << i)})={lo[t ^ (1 << i)]!r} < lower({t})={lo[t]!r}")
        prev = (r, lo, up)
        if res.failures:
            break
    proper = len(K) > len(minimal_masks(n)) and len(K) < (1 << n)
    res.nontrivial = bool(proper and tighter)
    res.label(f"n={n}", "how=" + game.get("how", "?"))
    if case.get("previous"):
        res.label("object-reused")
    if tighter:
        res.label("sam-tighter-than-sa")
    return res


def _sample(case):
    g = case["game"]
    if "lib" in g:
        return case
    return {"game": {"n": g["n"], "how": g["how"], "v": g["v"] if g["n"] <= 4 else g["v"][:16] + ["..."]}, "K": case["K"][:32], "rs": case["rs"]}


def plan(tier: str) -> list[dict]:
    if tier == "quick":
        return ([{"max_n": 5, "examples": 500, "big_r": False, "cost": 3} for _ in range(3)] + [{"max_n": 6, "examples": 120, "big_r": False, "cost": 3}]
                + [{"max_n": 9, "min_n": 9, "examples": 3, "big_r": False, "cost": 3}])
    return ([{"max_n": 5, "examples": 6000, "big_r": True, "cost": 8} for _ in range(10)]
            + [{"max_n": 6, "examples": 1500, "big_r": True, "cost": 10} for _ in range(5)]
            + [{"max_n": 9, "min_n": 8, "examples": 25, "big_r": False, "cost": 10}])


def run_shard(spec: dict, ctx: Ctx) -> None:
    ctx.run_given(cases(spec["max_n"], spec["big_r"], spec.get("min_n", 3)), check_case, spec["examples"], sample_of=_sample, shrink=spec.get("min_n", 3) <= 6)
