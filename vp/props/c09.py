"""C09  The reveal-one-coalition environment reflects exactly what was revealed."""
from __future__ import annotations

from hypothesis import strategies as st
from hypothesis.stateful import RuleBasedStateMachine, initialize, invariant, precondition, rule

from ..core import Ctx, Result, guarded
from ..games import sam_games, superadditive_games
from ..oracles import gap_tol, minimal_masks, ref_gap, ref_sa_bounds

ID = "C09"
LEVEL = "exploration"
GAPS = ("exploitability", "l1_norm", "l2_norm", "linf_norm")
RULE = ("Hypothesis RuleBasedStateMachine around ICG_Gym: n=3..5; a cyclic list of hidden games known to the harness (harness "
        "superadditive / SAM constructions and every runnable registered generator family by seed, graph games included), a "
        "computer matching the family (both SA computers; sam_apx_1/10 for SAM families), one of the four gap functions, a step "
        "budget None/k, optionally extra initially-known coalitions; rules step(valid a), unstep(revealed a), reset(). For n=3 all "
        "action sequences without repetition are enumerated. Oracle = model (hidden game, revealed set, step counter): known "
        "set/values, action mask, observation (bit-exact against the library's normalize_game on a copy AND, within a stated tolerance, against an exact rational normalisation of the hidden table - additive-up-to-rounding games must show zeros), reward == -(independent gap of a FRESH object with the same knowledge), "
        "info id, done predicate, reset behaviour; fresh SA bounds cross-checked with the reference closed form. Non-trivial: "
        ">= 2 steps and an unstep or reset, on a hidden game whose explorable values are not all equal.")
LEVEL_TEXT = ("Model-based stateful search over reset/step/unstep histories with an independent model of everything the environment "
              "returns; exhaustive over action orders for n=3 per drawn configuration. Explores configurations; no proof.")
LEVEL_NOTE = ("Trusted: vp/oracles.py gap and bound references; the library's normalize_game predicts observations bit for bit and C15's exact rational oracle "
              "(vp/props/c15.py norm_oracle) predicts them within its tolerance, grey zone skipped. Reward compared within oracles.gap_tol. n<=5.")
TECHNIQUE = "property-based testing: Hypothesis rule-based state machine vs explicit environment model (+ exhaustive n=3 action orders)"
ASSUMPTIONS = ["actions are valid (mask true) for step and previously revealed for unstep", "hidden games are of the class the computer assumes"]


def _gap_fn(name):
    from incomplete_cooperative.exploitability import compute_exploitability
    from incomplete_cooperative.norms import l1_norm, l2_norm, linf_norm
    return {"exploitability": compute_exploitability, "l1_norm": l1_norm, "l2_norm": l2_norm, "linf_norm": linf_norm}[name]


class Sim:
    def __init__(self, cfg: dict):
        import numpy as np
        from incomplete_cooperative.icg_gym import ICG_Gym
        from .. import libgames, repo
        self.repo, self.np, self.lib = repo, np, libgames
        self.cfg = cfg
        self.n = cfg["n"]
        self.specs = cfg["games"]
        self.values = [libgames.spec_values(s) for s in self.specs]
        self.calls = 0
        self.norm_cache = {}
        self.comp = cfg["computer"]
        self.gap = cfg["gap"]
        self.budget = cfg["budget"]
        init = sorted(minimal_masks(self.n) | set(cfg.get("extra_known", [])))
        self.init = set(init)
        self.explorable = [s for s in range(1 << self.n) if s not in self.init]

        # some callers prepare a list of hidden games once and cycle through the same OBJECTS (a legal generator);
        # the harness has asked those objects for all their values before (as any validation of a prepared list would)
        self.prepared = None
        if cfg.get("same_objects"):
            self.prepared = [libgames.spec_game(s) for s in self.specs]
            for g_ in self.prepared:
                g_.get_values()

        def gen():
            k = self.calls % len(self.specs)
            self.calls += 1
            if self.prepared is not None:
                return self.prepared[k]
            return libgames.spec_game(self.specs[k])

        inc = repo.new_game(self.n, self.comp)
        self.env = ICG_Gym(inc, gen, repo.coals(init), _gap_fn(self.gap), done_after_n_actions=self.budget)
        # constructor: one draw for full_game, one inside reset()
        self.cur = (self.calls - 1) % len(self.specs)
        self.revealed: set[int] = set()
        self.steps = 0
        self.last = None          # (kind, returned tuple)
        self.n_steps = 0
        self.undo = False

    # -- operations ---------------------------------------------------------------------------------
    def apply(self, op: list) -> None:
        kind = op[0]
        if kind == "step":
            out = self.env.step(op[1])
            self.revealed.add(self.explorable[op[1]])
            self.steps += 1
            self.n_steps += 1
            self.last = ("step", op[1], out)
        elif kind == "unstep":
            out = self.env.unstep(op[1])
            self.revealed.discard(self.explorable[op[1]])
            self.steps -= 1
            self.undo = True
            self.last = ("unstep", op[1], out)
        elif kind == "reset":
            before = self.calls
            out = self.env.reset()
            self.cur = before % len(self.specs)
            self.revealed = set()
            self.steps = 0
            self.undo = True
            self.last = ("reset", None, out)
            if self.calls != before + 1:
                self.last = ("reset-draws", self.calls - before, out)
        else:
            raise ValueError(op)

    def valid_steps(self):
        return [i for i, s in enumerate(self.explorable) if s not in self.revealed]

    def valid_unsteps(self):
        return [i for i, s in enumerate(self.explorable) if s in self.revealed]

    # -- oracle -----------------------------------------------------------------------------------------
    def check(self, res: Result, where: str) -> None:
        np, repo, env = self.np, self.repo, self.env
        n = self.n
        v = self.values[self.cur]
        K = self.init | self.revealed
        known, lo, up = repo.table(env.incomplete_game)
        # known set and values
        if [s for s in range(1 << n) if known[s]] != sorted(K):
            res.fail(f"known-set :: {where}: env knows {[s for s in range(1 << n) if known[s]]}, model {sorted(K)}")
            return
        for s in K:
            if lo[s] != v[s] or up[s] != v[s]:
                res.fail(f"known-value :: {where}: coalition {s} stored [{lo[s]!r},{up[s]!r}], hidden game has {v[s]!r}")
        # full game
        fv = [float(x) for x in env.full_game.get_values()]
        if fv != v:
            res.fail(f"hidden-game :: {where}: env.full_game is not game #{self.cur} of the generator sequence")
            return
        # mask
        mask = [bool(x) for x in env.action_masks()]
        want_mask = [s not in K for s in self.explorable]
        if mask != want_mask:
            res.fail(f"action-mask :: {where}: {mask} expected {want_mask}")
        # observation
        norm = self.lib.spec_game(self.specs[self.cur])
        from incomplete_cooperative.normalize import normalize_game
        normalize_game(norm)
        nv = [float(x) for x in norm.get_values()]
        want_state = [nv[s] if s in K else 0.0 for s in self.explorable]
        state = [float(x) for x in env.state]
        if state != want_state:
            res.fail(f"observation :: {where}: env.state {state} expected {want_state}")
        # ... and against an oracle that shares nothing with the library (exact rational normalisation of the hidden table; games
        # that are additive up to rounding normalise to zero; the grey zone in between is not judged - see C15)
        if self.norm_cache.get(self.cur) is None:
            from ..oracles import is_sa
            from .c15 import norm_oracle
            scale_ = max([abs(x) for x in v] + [1e-300])
            self.norm_cache[self.cur] = norm_oracle(v, n) if is_sa(v, n, 1e-9 * scale_) else ("not-superadditive", None, None)
        mode_, w_, tol_ = self.norm_cache[self.cur]
        if w_ is not None:
            for pos, s in enumerate(self.explorable):
                want = w_[s] if s in K else 0.0
                if abs(state[pos] - want) > tol_ * max(1.0, abs(want)):
                    res.fail(f"observation-vs-exact-normalisation :: {where}: position {pos} (coalition {s}) shows {state[pos]!r}, "
                             f"exact normalised hidden value {want!r} ({mode_})")
                    break
        # reward vs fresh object + independent gap
        fresh = repo.new_game(n, self.comp)
        repo.set_knowledge(fresh, v, K)
        fresh.compute_bounds()
        _, flo, fup = repo.table(fresh)
        if (flo, fup) != (lo, up):
            res.fail(f"stale-bounds :: {where}: env table differs from freshly computed bounds for the same knowledge")
        if self.comp.startswith("superadditive") and n <= 5:
            rlo, rup = ref_sa_bounds(v, K, n)
            scale = max([abs(x) for x in v] + [1.0])
            if any(abs(a - b) > 1e-9 * scale for a, b in zip(rlo, flo)) or any(abs(a - b) > 1e-9 * scale for a, b in zip(rup, fup)):
                res.fail(f"fresh-bounds!=reference :: {where}")
        tol = gap_tol(self.gap, flo, fup, n)
        want_reward = -ref_gap(self.gap, flo, fup, n)
        reward = float(env.reward)
        if abs(reward - want_reward) > tol:
            res.fail(f"reward :: {where}: env.reward {reward!r}, -gap of fresh bounds {want_reward!r} ({self.gap})")
        if reward > tol:
            res.fail(f"reward-positive :: {where}: {reward!r}")
        # done
        degenerate = all(u - l == 0 for l, u in zip(lo, up))
        want_done = (self.budget is not None and self.steps >= self.budget) or (not any(want_mask)) or degenerate
        if bool(env.done) != want_done:
            res.fail(f"done :: {where}: env.done={env.done} expected {want_done} (steps {self.steps}, budget {self.budget}, left {sum(want_mask)}, degenerate {degenerate})")
        if env.steps_taken != self.steps:
            res.fail(f"steps_taken :: {where}: {env.steps_taken} expected {self.steps}")
        # return values of the last call
        if self.last is not None:
            kind, a, out = self.last
            if kind == "reset-draws":
                res.fail(f"reset-draws :: {where}: reset() drew {a} hidden games instead of 1")
            elif kind == "reset":
                st_, info = out
                if [float(x) for x in st_] != want_state:
                    res.fail(f"reset-return :: {where}: returned observation differs from state")
                if [float(x) for x in info["game"].get_values()] != v:
                    res.fail(f"reset-return :: {where}: info['game'] is not the new hidden game")
            else:
                st_, rew, done, trunc, info = out
                if [float(x) for x in st_] != want_state:
                    res.fail(f"{kind}-return :: {where}: returned observation {list(map(float, st_))} expected {want_state}")
                if abs(float(rew) - want_reward) > tol:
                    res.fail(f"{kind}-return :: {where}: returned reward {float(rew)!r} expected {want_reward!r}")
                if bool(done) != want_done:
                    res.fail(f"{kind}-return :: {where}: returned done {done} expected {want_done}")
                if trunc is not False:
                    res.fail(f"{kind}-return :: {where}: truncated flag {trunc!r}")
                if info.get("chosen_coalition") != self.explorable[a]:
                    res.fail(f"{kind}-return :: {where}: info['chosen_coalition']={info.get('chosen_coalition')} expected {self.explorable[a]}")
        # explorable list and spaces
        if [c.id for c in env.explorable_coalitions] != self.explorable:
            res.fail(f"explorable :: {where}: {[c.id for c in env.explorable_coalitions]} expected {self.explorable}")

    def classify(self, res: Result) -> None:
        vals = {self.values[self.cur][s] for s in self.explorable}
        res.nontrivial = self.n_steps >= 2 and self.undo and len(vals) > 1
        res.label(f"n={self.n}", f"comp={self.comp}", f"gap={self.gap}", f"budget={self.budget}",
                  "src=" + self.specs[0].get("how", "?").split("(")[0])


@guarded
def check_case(case: dict) -> Result:
    res = Result()
    sim = Sim(case["cfg"])
    sim.check(res, "after construction")
    if case.get("exhaustive"):
        count = [0]

        def rec(depth):
            for a in sim.valid_steps():
                if res.failures:
                    return
                sim.apply(["step", a])
                count[0] += 1
                sim.check(res, f"exhaustive depth {depth} after step {a}")
                rec(depth + 1)
                if res.failures:
                    return
                sim.apply(["unstep", a])
                sim.check(res, f"exhaustive depth {depth} after unstep {a}")
        rec(0)
        sim.apply(["reset"])
        sim.check(res, "after reset")
        sim.n_steps = 2
        res.labels.append(f"exhaustive-steps={count[0]}")
    else:
        for i, op in enumerate(case["ops"]):
            if res.failures:
                break
            sim.apply(op)
            sim.check(res, f"after op {i} {op}")
    sim.classify(res)
    return res


@st.composite
def configs(draw, n_min: int, n_max: int, lib_only=None, sam_only: bool = False):
    from .. import libgames
    n = draw(st.integers(n_min, n_max))
    src = draw(st.sampled_from(["harness-sa", "harness-sam", "lib", "lib"])) if lib_only is None else "lib"
    if sam_only:
        # monotone families with the approximate SAM computers: there a reveal of an already pinned coalition still tightens
        # its supersets, so every step must really recompute
        src = draw(st.sampled_from(["harness-sam", "lib"]))
        if src == "lib":
            lib_only = draw(st.sampled_from(["k_budget_generator", "covg_fn_generator", "xos", "xos3", "xs", "xs3", "oxs"]))
    k = draw(st.integers(1, 3))
    if src == "harness-sa":
        games = []
        for _ in range(k):
            g = draw(superadditive_games(n, n))
            games.append({"kind": "table", "n": n, "v": g["v"], "how": "harness-sa:" + g["how"]})
        comp = draw(st.sampled_from(["superadditive", "superadditive_cached"]))
    elif src == "harness-sam":
        games = []
        for _ in range(k):
            g = draw(sam_games(n, n))
            games.append({"kind": "table", "n": n, "v": g["v"], "how": "harness-" + g["how"]})
        comp = draw(st.sampled_from(["sam_apx_1", "sam_apx_10", "superadditive_cached"] if not sam_only else ["sam_apx_1", "sam_apx_10"]))
    else:
        name = lib_only or draw(st.sampled_from(libgames.names()))
        seed = draw(st.integers(0, 2**31))
        games = [libgames.lib_spec(name, n, seed + j) for j in range(k)]
        if name in libgames.SAM_FAMILIES:
            comp = draw(st.sampled_from(["sam_apx_1", "sam_apx_10", "superadditive_cached", "superadditive"] if not sam_only else ["sam_apx_1", "sam_apx_10"]))
        else:
            comp = draw(st.sampled_from(["superadditive", "superadditive_cached"]))
    nexp = (1 << n) - n - 2
    extra = []
    if draw(st.integers(0, 4)) == 0 and nexp > 1:
        mins = minimal_masks(n)
        rest = [s for s in range(1 << n) if s not in mins]
        extra = draw(st.lists(st.sampled_from(rest), max_size=2, unique=True))
    return {"n": n, "games": games, "computer": comp, "gap": draw(st.sampled_from(GAPS)),
            "budget": draw(st.sampled_from([None, None, 1, 2, 4, 0])), "extra_known": sorted(extra),
            "same_objects": draw(st.integers(0, 3)) == 0}


def make_machine(n_min: int, n_max: int, sam_only: bool = False):
    class Machine(RuleBasedStateMachine):
        ctx: Ctx = None  # type: ignore[assignment]

        def __init__(self):
            super().__init__()
            self.sim = None
            self.case = None

        @initialize(cfg=configs(n_min, n_max, sam_only=sam_only))
        def init(self, cfg):
            self.case = {"cfg": cfg, "ops": []}
            self.sim = Sim(cfg)

        def _do(self, op):
            self.case["ops"].append(op)
            self.ctx.current_case = self.case
            self.sim.apply(op)

        @precondition(lambda self: self.sim is not None and self.sim.valid_steps())
        @rule(i=st.integers(0, 2**20))
        def step(self, i):
            v = self.sim.valid_steps()
            self._do(["step", v[i % len(v)]])

        @precondition(lambda self: self.sim is not None and len(self.sim.valid_steps()) > 0)
        @rule(picks=st.lists(st.integers(0, 2**20), min_size=2, max_size=6))
        def several_steps(self, picks):
            # long forward runs (episodes as the solvers play them); every single step is checked
            for i in picks:
                v = self.sim.valid_steps()
                if not v:
                    break
                self._do(["step", v[i % len(v)]])
                res = Result()
                self.sim.check(res, f"after op {len(self.case['ops']) - 1}")
                if res.failures:
                    self.sim.classify(res)
                    self.ctx.judge(self.case, res, _sample(self.case))

        @precondition(lambda self: self.sim is not None and self.sim.valid_unsteps())
        @rule(i=st.integers(0, 2**20))
        def unstep(self, i):
            v = self.sim.valid_unsteps()
            self._do(["unstep", v[i % len(v)]])

        @precondition(lambda self: self.sim is not None)
        @rule()
        def reset(self):
            self._do(["reset"])

        @invariant()
        def holds(self):
            if self.sim is None:
                return
            res = Result()
            self.sim.check(res, f"after op {len(self.case['ops']) - 1}")
            if res.failures:
                self.sim.classify(res)
                self.ctx.judge(self.case, res, _sample(self.case))

        def teardown(self):
            if self.sim is None:
                return
            res = Result()
            self.sim.classify(res)
            self.ctx.record(self.case, res, _sample(self.case))

    return Machine


def _sample(case):
    cfg = dict(case["cfg"])
    cfg["games"] = [{k: (v if k != "v" or len(v) <= 16 else v[:16] + ["..."]) for k, v in g.items()} for g in cfg["games"][:2]]
    return {"cfg": cfg, "ops": case.get("ops", [])[:20], "exhaustive": case.get("exhaustive", False)}


def plan(tier: str) -> list[dict]:
    if tier == "quick":
        return ([{"mode": "machine", "n_min": 3, "n_max": 5, "examples": 150, "steps": 18, "cost": 4} for _ in range(5)]
                + [{"mode": "machine", "n_min": 5, "n_max": 5, "sam_only": True, "examples": 60, "steps": 25, "cost": 5}]
                + [{"mode": "exh3", "examples": 40, "cost": 3}])
    return ([{"mode": "machine", "n_min": 3, "n_max": 5, "examples": 1500, "steps": 25, "cost": 10} for _ in range(9)]
            + [{"mode": "machine", "n_min": 4, "n_max": 5, "sam_only": True, "examples": 250, "steps": 30, "cost": 10} for _ in range(2)]
            + [{"mode": "exh3", "examples": 600, "cost": 8} for _ in range(2)]
            + [{"mode": "families", "cost": 10, "part": p, "parts": 3} for p in range(3)])


def run_shard(spec: dict, ctx: Ctx) -> None:
    if spec["mode"] == "machine":
        ctx.run_machine(make_machine(spec["n_min"], spec["n_max"], spec.get("sam_only", False)), spec["examples"], spec["steps"])
    elif spec["mode"] == "exh3":
        strat = configs(3, 3).map(lambda cfg: {"cfg": cfg, "exhaustive": True, "ops": []})
        ctx.run_given(strat, check_case, spec["examples"], sample_of=_sample)
        ctx.extra["exhaustive_parts"] = ["all 16 action sequences without repetition (with unstep of every prefix) of n=3 per drawn configuration"]
    else:
        # every registered family once per n, exhaustive n=3 + a fixed walk at n=4
        from .. import libgames
        fams = libgames.names()
        for j, name in enumerate(fams):
            if j % spec["parts"] != spec["part"]:
                continue
            strat = configs(3, 3, lib_only=name).map(lambda cfg: {"cfg": cfg, "exhaustive": True, "ops": []})
            ctx.run_given(strat, check_case, 3, sample_of=_sample, sub_seed=j)
        ctx.extra["families_visited"] = len([1 for j in range(len(fams)) if j % spec["parts"] == spec["part"]])
