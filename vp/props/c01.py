"""C01  Superadditive bounds always contain the true game.

Stateful model-based search: a hidden superadditive game v, a model knowledge set K, and two real
IncompleteCooperativeGame objects (one per superadditive computer) driven in lockstep through
reveal / un-reveal / bulk reset / recompute histories.  After every operation:
lower <= v <= upper, lower <= upper, known rows carry exactly v, known flags equal the model.
"""
from __future__ import annotations

from hypothesis import strategies as st
from hypothesis.stateful import RuleBasedStateMachine, initialize, invariant, precondition, rule

from ..core import Ctx, Result, guarded
from ..games import (EXACT, knowledge_sets, scale_of, seeded_knowledge, seeded_superadditive,
                     superadditive_games)
from ..oracles import minimal_masks

ID = "C01"
LEVEL = "exploration"
COMPUTERS = ("superadditive", "superadditive_cached")
RULE = ("Hypothesis RuleBasedStateMachine: hidden superadditive game (surplus construction: int / dyadic / float, "
        "negative, non-zero-normalised and zero-rich (exact zeros over negative singletons) included), start knowledge K0 >= minimal information, rules reveal / "
        "unreveal (each either followed by compute_bounds() or deferred until a later recompute) / bulk reset to K' / recompute (also twice) / re-set a known value (revealed coalitions are built from player LISTINGS, the largest player named twice for odd sizes), then "
        "compute_bounds() on one object per computer ('superadditive', 'superadditive_cached'); plus all knowledge "
        "sets of n=3 (8) and n=4 (1024) for drawn games. Oracle: the hidden game itself. A case is non-trivial "
        "when at some step K held a non-minimal coalition and left one unknown AND the history contains an "
        "un-reveal or a reset; distinct = hash of (game, K0, operations).")
LEVEL_TEXT = ("Generated-input search (stateful, model-based) against the hidden true game: thousands of "
              "(game, knowledge, history) cases per run on both computers plus every knowledge set for n<=4; a violation "
              "is shrunk to a minimal replayable history. Soundness is a for-all over games x knowledge sets x histories, "
              "so exploration with an exact oracle is the strongest level this technique reaches; it does not prove absence.")
LEVEL_NOTE = ("Trusted: the harness's superadditive construction (checked by an independent exact predicate in C10/C18 style), "
              "Hypothesis, numpy. Bounded to n<=8; float games compared with 1e-9*scale slack on the upper side.")
TECHNIQUE = "property-based testing: Hypothesis rule-based state machine vs hidden-truth oracle + exhaustive knowledge-lattice enumeration (n<=4)"
ASSUMPTIONS = [
    "games outside the superadditive class are not generated (the property is silent on them)",
    "exact comparison on int/dyadic games; 1e-9*scale slack for the upper bound on float games (one subtraction "
    "per candidate, the hidden game's inequalities hold for rounded sums)",
    "n <= 5 quick, n <= 8 (cached) / 7 (uncached) thorough",
]


class Sim:
    """The real objects plus the model, driven by concrete operations."""

    def __init__(self, game: dict, k0: list[int], computers=COMPUTERS):
        from .. import repo
        self.repo = repo
        self.n = game["n"]
        self.v = game["v"]
        self.cls = game["cls"]
        self.K = set(k0)
        self.min = minimal_masks(self.n)
        self.objs = {c: repo.new_game(self.n, c) for c in computers}
        for g in self.objs.values():
            repo.set_knowledge(g, self.v, self.K)
            g.compute_bounds()
        self.tol = 0.0 if self.cls in EXACT else 1e-9 * scale_of(self.v)
        self.seen_proper = self._proper()
        self.seen_undo = False
        self.dirty = False
        self.seen_nc = False

    def _proper(self) -> bool:
        return len(self.K) > len(self.min) and len(self.K) < (1 << self.n)

    def unknown(self) -> list[int]:
        return [s for s in range(1 << self.n) if s not in self.K]

    def removable(self) -> list[int]:
        return sorted(self.K - self.min)

    def apply(self, op: list) -> None:
        repo = self.repo
        kind = op[0]
        nc = kind.endswith("_nc")          # mutation NOT followed by compute_bounds(): bounds are stale until 'recompute'
        if nc:
            kind = kind[:-3]
        if kind == "fork":
            # go on with a COPY of every object (a copy must be a full working game: same computer, same table)
            self.objs = {name: g.copy() for name, g in self.objs.items()}
            for g in self.objs.values():
                g.compute_bounds()
            self.dirty = False
            return
        for g in self.objs.values():
            if kind == "reveal":
                g.reveal_value(self.v[op[1]], repo.coal_listed(op[1]))
            elif kind == "unreveal":
                g.unreveal_value(repo.coal_listed(op[1]))
            elif kind == "reset":
                repo.set_knowledge(g, self.v, op[1])
            elif kind == "set_many":
                import numpy as np
                g.set_values(np.array([self.v[m] for m in op[1]], dtype=float), repo.coals(op[1]))   # bulk set without reset
            elif kind == "reset_value":
                g.set_value(self.v[op[1]], repo.coal(op[1]))
            elif kind == "recompute":
                g.compute_bounds()
            else:
                raise ValueError(op)
            if not nc:
                g.compute_bounds()
        self.dirty = nc
        if nc:
            self.seen_nc = True
        if kind == "reveal":
            self.K.add(op[1])
        elif kind == "set_many":
            self.K.update(op[1])
        elif kind == "unreveal":
            self.K.discard(op[1])
            self.seen_undo = True
        elif kind == "reset":
            self.K = set(op[1])
            self.seen_undo = True
        self.seen_proper = self.seen_proper or self._proper()

    def check(self, res: Result, where: str) -> None:
        if self.dirty:          # the property speaks about the state after bounds are computed
            return
        v, tol = self.v, self.tol
        for name, g in self.objs.items():
            known, lower, upper = self.repo.table(g)
            for s in range(1 << self.n):
                if known[s] != (s in self.K):
                    res.fail(f"known-flag :: {name} {where}: coalition {s} known={known[s]} model={s in self.K}")
                    continue
                if known[s]:
                    if lower[s] != v[s] or upper[s] != v[s]:
                        res.fail(f"known-row :: {name} {where}: known coalition {s} has [{lower[s]!r},{upper[s]!r}] value {v[s]!r}")
                    continue
                if not (lower[s] <= v[s] + tol):
                    res.fail(f"lower>v :: {name} {where}: coalition {s} lower {lower[s]!r} > true {v[s]!r}")
                if not (v[s] <= upper[s] + tol):
                    res.fail(f"upper<v :: {name} {where}: coalition {s} upper {upper[s]!r} < true {v[s]!r}")
                if not (lower[s] <= upper[s] + tol):
                    res.fail(f"lower>upper :: {name} {where}: coalition {s} [{lower[s]!r},{upper[s]!r}]")

    def classify(self, res: Result) -> None:
        res.nontrivial = bool(self.seen_proper and self.seen_undo)
        res.label(f"n={self.n}", f"cls={self.cls}")
        if self.seen_undo:
            res.label("has-undo/reset")
        if self.seen_nc:
            res.label("has-deferred-compute")


@guarded
def check_case(case: dict) -> Result:
    res = Result()
    if case.get("kind") == "allK":
        return _check_all_k(case, res)
    sim = Sim(case["game"], case["k0"], case.get("computers", COMPUTERS))
    sim.check(res, "after init")
    for i, op in enumerate(case["ops"]):
        if res.failures:
            break
        sim.apply(op)
        sim.check(res, f"after op {i} {op[0]}")
    sim.classify(res)
    res.label(f"ops={min(len(case['ops']) // 5 * 5, 40)}+")
    return res


def _check_all_k(case: dict, res: Result) -> Result:
    """Every knowledge set of a small game: exhaustive in K."""
    game = case["game"]
    n = game["n"]
    mins = minimal_masks(n)
    rest = [s for s in range(1 << n) if s not in mins]
    sim = Sim(game, sorted(mins))
    count = 0
    for bits in range(1 << len(rest)):
        k = sorted(mins | {rest[j] for j in range(len(rest)) if bits >> j & 1})
        sim.apply(["reset", k])
        sim.check(res, f"K={k}")
        count += 1
        if res.failures:
            break
    res.nontrivial = True
    res.label(f"allK n={n}", f"cls={game['cls']}")
    return res


# ----------------------------------------------------------------------------------------------------


def make_machine(max_n: int, explicit_up_to: int = 5, min_n: int = 2):
    class Machine(RuleBasedStateMachine):
        ctx: Ctx = None  # type: ignore[assignment]

        def __init__(self):
            super().__init__()
            self.sim = None
            self.case = None

        @initialize(game=superadditive_games(min_n, max_n, explicit_up_to=explicit_up_to), data=st.data())
        def init(self, game, data):
            n = game["n"]
            comps = list(COMPUTERS)
            if n >= 8:
                comps = ["superadditive_cached"]      # the uncached computer needs seconds per call from n = 8 on
            k0 = data.draw(knowledge_sets(n)) if n <= 6 else seeded_knowledge(n, data.draw(st.integers(0, 2**31)))
            self.case = {"game": game, "k0": k0, "ops": [], "computers": comps}
            self.sim = Sim(game, k0, comps)

        def _do(self, op):
            self.case["ops"].append(op)
            self.ctx.current_case = self.case
            self.sim.apply(op)

        @precondition(lambda self: self.sim is not None and self.sim.unknown())
        @rule(i=st.integers(0, 2**20), nc=st.booleans())
        def reveal(self, i, nc):
            u = self.sim.unknown()
            self._do(["reveal_nc" if nc else "reveal", u[i % len(u)]])

        @precondition(lambda self: self.sim is not None and self.sim.unknown())
        @rule(picks=st.lists(st.integers(0, 2**20), min_size=1, max_size=4), nc=st.booleans())
        def set_many(self, picks, nc):
            u = self.sim.unknown()
            self._do(["set_many_nc" if nc else "set_many", sorted({u[i % len(u)] for i in picks})])

        @precondition(lambda self: self.sim is not None and self.sim.removable())
        @rule(i=st.integers(0, 2**20), nc=st.booleans())
        def unreveal(self, i, nc):
            r = self.sim.removable()
            self._do(["unreveal_nc" if nc else "unreveal", r[i % len(r)]])

        @precondition(lambda self: self.sim is not None)
        @rule(data=st.data())
        def reset(self, data):
            n = self.sim.n
            k = data.draw(knowledge_sets(n)) if n <= 6 else seeded_knowledge(n, data.draw(st.integers(0, 2**31)))
            self._do(["reset", k])

        @precondition(lambda self: self.sim is not None)
        @rule()
        def recompute(self):
            self._do(["recompute"])

        @precondition(lambda self: self.sim is not None)
        @rule()
        def fork(self):
            self._do(["fork"])

        @precondition(lambda self: self.sim is not None)
        @rule(i=st.integers(0, 2**20))
        def reset_value(self, i):
            k = sorted(self.sim.K)
            self._do(["reset_value", k[i % len(k)]])

        @invariant()
        def holds(self):
            if self.sim is None:
                return
            res = Result()
            self.sim.check(res, f"after op {len(self.case['ops']) - 1}")
            if res.failures:
                self.sim.classify(res)
                self.ctx.judge(self.case, res, _sample(self.case))

        def teardown(self):
            if self.sim is None:
                return
            res = Result()
            self.sim.classify(res)
            self.ctx.record(self.case, res, _sample(self.case))

    return Machine


def _sample(case: dict) -> dict:
    g = case["game"]
    return {"n": g["n"], "cls": g["cls"], "how": g.get("how"), "v": g["v"] if g["n"] <= 4 else g["v"][:16] + ["..."],
            "k0": case["k0"][:24], "ops": case["ops"][:12]}


def plan(tier: str) -> list[dict]:
    if tier == "quick":
        return ([{"mode": "machine", "max_n": 5, "examples": 300, "steps": 25, "cost": 3} for _ in range(4)]
                + [{"mode": "machine", "max_n": 7, "explicit": 5, "examples": 25, "steps": 15, "cost": 3}]
                + [{"mode": "machine", "max_n": 9, "min_n": 9, "explicit": 5, "examples": 6, "steps": 8, "cost": 3}]
                + [{"mode": "allK", "n": 3, "games": 60, "cost": 1}, {"mode": "allK", "n": 4, "games": 6, "cost": 2}])
    return ([{"mode": "machine", "max_n": 6, "examples": 900, "steps": 40, "cost": 8} for _ in range(8)]
            + [{"mode": "machine", "max_n": 8, "explicit": 4, "examples": 150, "steps": 25, "cost": 10} for _ in range(3)]
            + [{"mode": "machine", "max_n": 10, "min_n": 9, "explicit": 4, "examples": 40, "steps": 15, "cost": 10}]
            + [{"mode": "allK", "n": 3, "games": 400, "cost": 1}]
            + [{"mode": "allK", "n": 4, "games": 80, "cost": 6} for _ in range(4)])


def run_shard(spec: dict, ctx: Ctx) -> None:
    if spec["mode"] == "machine":
        ctx.run_machine(make_machine(spec["max_n"], spec.get("explicit", 5), spec.get("min_n", 2)), spec["examples"], spec["steps"])
        return
    n = spec["n"]
    strat = superadditive_games(n, n).map(lambda g: {"kind": "allK", "game": g})
    ctx.run_given(strat, check_case, spec["games"])
    ctx.extra["exhaustive_parts"] = [f"all {1 << ((1 << n) - n - 2)} knowledge sets of n={n} for each of the drawn games"]
