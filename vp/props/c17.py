"""C17  An incomplete game object is a faithful map coalition -> (known?, lower, upper).

Rule-based state machine over the public mutators with a dictionary model; every public getter is compared with
the model after every rule.  Copies and negations are kept alive and must stay independent.
"""
from __future__ import annotations

import math

from hypothesis import strategies as st
from hypothesis.stateful import RuleBasedStateMachine, initialize, invariant, precondition, rule

from ..core import Ctx, Result, guarded

ID = "C17"
LEVEL = "exploration"
RULE = ("Hypothesis RuleBasedStateMachine, n=1..5: rules set_value, unset_value, set_values (all / selected distinct coalitions / the EMPTY subset), "
        "reveal_value / unreveal_value (only under their documented precondition), set_known_values (all / selected), "
        "set_upper_bounds / set_lower_bounds (all / selected / empty subset), set_upper_bound / set_lower_bound on unknown coalitions, copy "
        "(then both sides keep being mutated), negation; values int/dyadic/float incl. negative and zero. Oracle: dictionary model "
        "coalition -> (known, lower, upper); after every rule every public getter (is_value_known, are_values_known, "
        "get_lower/upper_bound(s), get_interval(s), get_value(s), get_known_value(s), full) is compared with the model for all "
        "coalitions and for drawn coalition lists, on every live object. Non-trivial: history containing a bulk bound set after "
        "a reveal, a reset after bounds were set, or a copy/negation followed by a mutation; distinct = hash of the operation list.")
LEVEL_TEXT = ("Model-based stateful search against an obviously-correct dictionary model over all public operations; interactions "
              "only arise in histories, which Hypothesis generates and shrinks. Exploration, no proof.")
LEVEL_NOTE = "Trusted: the dictionary model in this file. n<=5; float equality is exact (the object only stores and negates numbers)."
TECHNIQUE = "property-based testing: Hypothesis rule-based state machine vs dictionary reference model"
ASSUMPTIONS = [
    "selected-coalition bulk operations are called with distinct coalitions (duplicate indices are outside the documented use)",
    "reveal_value / unreveal_value are only called when their assert-precondition holds",
    "Coalition == int is not part of the listed semantics",
]

VALUES = st.one_of(st.integers(-64, 64).map(float),
                   st.integers(-4096, 4096).map(lambda x: x / 64.0),
                   st.floats(-1e6, 1e6, allow_nan=False, allow_subnormal=False),
                   st.sampled_from([0.0, -0.0, 1.0, -1.0]))


class Model:
    def __init__(self, n):
        self.n = n
        self.rows = {s: [False, 0.0, 0.0] for s in range(1 << n)}
        self.rows[0] = [True, 0.0, 0.0]

    def copy(self):
        m = Model(self.n)
        m.rows = {s: list(r) for s, r in self.rows.items()}
        return m

    def neg(self):
        m = Model(self.n)
        m.rows = {s: [r[0], -r[2], -r[1]] for s, r in self.rows.items()}
        return m

    def reset(self):
        self.rows = {s: [False, 0.0, 0.0] for s in range(1 << self.n)}
        self.rows[0] = [True, 0.0, 0.0]


class Sim:
    """objects[i] is a real game, models[i] its model; op targets are indices."""

    def __init__(self, n: int):
        from .. import repo
        self.repo = repo
        self.n = n
        self.objects = [repo.new_game(n)]
        self.models = [Model(n)]
        self.flags = {"reveal": False, "bounds": False, "derived": False}
        self.nontrivial = False

    def apply(self, op: list) -> None:
        import numpy as np
        repo = self.repo
        kind, t = op[0], op[1]
        g, m = self.objects[t], self.models[t]
        if kind in ("set", "reveal"):
            s, x = op[2], op[3]
            (g.set_value if kind == "set" else g.reveal_value)(x, repo.coal(s))
            m.rows[s] = [True, x, x]
            self.flags["reveal"] = True
        elif kind in ("unset", "unreveal"):
            s = op[2]
            (g.unset_value if kind == "unset" else g.unreveal_value)(repo.coal(s))
            m.rows[s] = [False, 0.0, 0.0]
        elif kind == "set_values":
            masks, xs = op[2], op[3]
            if masks is None:
                g.set_values(np.array(xs, dtype=float))
                masks = list(range(1 << self.n))
            else:
                g.set_values(np.array(xs, dtype=float), repo.coals(masks))
            for s, x in zip(masks, xs):
                m.rows[s] = [True, x, x]
            self.flags["reveal"] = True
        elif kind == "set_known":
            masks, xs = op[2], op[3]
            if masks is None:
                g.set_known_values(list(xs))
                masks = list(range(1 << self.n))
            else:
                g.set_known_values(list(xs), repo.coals(masks))
            if self.flags["bounds"]:
                self.nontrivial = True
            m.reset()
            for s, x in zip(masks, xs):
                m.rows[s] = [True, x, x]
        elif kind in ("set_uppers", "set_lowers"):
            masks, xs = op[2], op[3]
            fn = g.set_upper_bounds if kind == "set_uppers" else g.set_lower_bounds
            if masks is None:
                fn(np.array(xs, dtype=float))
                masks = list(range(1 << self.n))
            else:
                fn(np.array(xs, dtype=float), repo.coals(masks))
            idx = 2 if kind == "set_uppers" else 1
            for s, x in zip(masks, xs):
                if not m.rows[s][0]:
                    m.rows[s][idx] = x
            self.flags["bounds"] = True
            if self.flags["reveal"]:
                self.nontrivial = True
        elif kind in ("set_upper", "set_lower"):
            s, x = op[2], op[3]
            (g.set_upper_bound if kind == "set_upper" else g.set_lower_bound)(x, repo.coal(s))
            m.rows[s][2 if kind == "set_upper" else 1] = x
            self.flags["bounds"] = True
        elif kind == "copy":
            self.objects.append(g.copy())
            self.models.append(m.copy())
            self.flags["derived"] = True
            return
        elif kind == "neg":
            self.objects.append(-g)
            self.models.append(m.neg())
            self.flags["derived"] = True
            return
        else:
            raise ValueError(op)
        if self.flags["derived"]:
            self.nontrivial = True

    def check(self, res: Result, probe: list[int]) -> None:
        import numpy as np
        repo = self.repo
        n = self.n
        allm = list(range(1 << n))
        for t, (g, m) in enumerate(zip(self.objects, self.models)):
            w = f"object {t}"
            known = [m.rows[s][0] for s in allm]
            lows = [m.rows[s][1] for s in allm]
            ups = [m.rows[s][2] for s in allm]
            if g.number_of_players != n:
                res.fail(f"number_of_players :: {w}")
            if [bool(x) for x in g.are_values_known()] != known:
                res.fail(f"are_values_known :: {w}: {[bool(x) for x in g.are_values_known()]} model {known}")
            if not _same(g.get_lower_bounds(), lows):
                res.fail(f"get_lower_bounds :: {w}: {list(g.get_lower_bounds())} model {lows}")
            if not _same(g.get_upper_bounds(), ups):
                res.fail(f"get_upper_bounds :: {w}: {list(g.get_upper_bounds())} model {ups}")
            iv = np.asarray(g.get_intervals())
            if iv.shape != (1 << n, 2) or not _same(iv[:, 0], lows) or not _same(iv[:, 1], ups):
                res.fail(f"get_intervals :: {w}")
            if g.full != all(known):
                res.fail(f"full :: {w}: {g.full} model {all(known)}")
            kv = np.asarray(g.get_known_values())
            for s in allm:
                c = repo.coal(s)
                k, lo, up = m.rows[s]
                if g.is_value_known(c) != k:
                    res.fail(f"is_value_known :: {w} coalition {s}: object says {g.is_value_known(c)}, model {k}")
                    continue
                if not (_feq(g.get_lower_bound(c), lo) and _feq(g.get_upper_bound(c), up)):
                    res.fail(f"get_bound :: {w} coalition {s}: [{g.get_lower_bound(c)!r},{g.get_upper_bound(c)!r}] model [{lo!r},{up!r}]")
                it = g.get_interval(c)
                if not (_feq(it[0], lo) and _feq(it[1], up)):
                    res.fail(f"get_interval :: {w} coalition {s}")
                if k:
                    if not (lo == up):
                        res.fail(f"harness-model :: known row with lower != upper {s}")
                    if not _feq(g.get_value(c), lo):
                        res.fail(f"get_value :: {w} coalition {s}: {g.get_value(c)!r} model {lo!r}")
                    if g.get_known_value(c) is None or not _feq(g.get_known_value(c), lo):
                        res.fail(f"get_known_value :: {w} coalition {s}: {g.get_known_value(c)!r} model {lo!r}")
                    if not _feq(kv[s], lo):
                        res.fail(f"get_known_values :: {w} coalition {s}: {kv[s]!r} model {lo!r}")
                else:
                    try:
                        val = g.get_value(c)
                        res.fail(f"unknown-value-returned :: {w}: get_value({s}) returned {val!r} for an unknown coalition")
                    except ValueError:
                        pass
                    if g.get_known_value(c) is not None:
                        res.fail(f"unknown-value-returned :: {w}: get_known_value({s}) = {g.get_known_value(c)!r}")
                    if not math.isnan(kv[s]):
                        res.fail(f"unknown-value-returned :: {w}: get_known_values()[{s}] = {kv[s]!r} (not NaN)")
            # get_known_values must not have written NaN into the live table
            if not _same(g.get_upper_bounds(), ups):
                res.fail(f"getter-mutates :: {w}: get_known_values() changed the table")
            # list-valued getters on a drawn coalition list, also handed over as one-shot iterables (the declared type is
            # Iterable[Coalition]; the package itself passes map objects)
            if probe:
                for mk in (lambda: iter(repo.coals(probe)), lambda: (c for c in repo.coals(probe)), lambda: map(repo.coal, probe)):
                    if [bool(x) for x in g.are_values_known(mk())] != [known[s] for s in probe]:
                        res.fail(f"are_values_known(iterator) :: {w} {probe}")
                    if not _same(g.get_lower_bounds(mk()), [lows[s] for s in probe]) or not _same(g.get_upper_bounds(mk()), [ups[s] for s in probe]):
                        res.fail(f"get_bounds(iterator) :: {w} {probe}")
                    kvi = np.asarray(g.get_known_values(mk()))
                    if len(kvi) != len(probe) or any(known[s] != (not math.isnan(kvi[j])) or (known[s] and not _feq(kvi[j], lows[s])) for j, s in enumerate(probe)):
                        res.fail(f"get_known_values(iterator) :: {w} {probe}: {kvi.tolist()}")
                    if all(known[s] for s in probe):
                        if not _same(g.get_values(mk()), [lows[s] for s in probe]):
                            res.fail(f"get_values(iterator) :: {w} {probe}")
                    else:
                        try:
                            val = g.get_values(mk())
                            res.fail(f"unknown-value-returned :: {w}: get_values(<one-shot iterable of {probe}>) returned {list(map(float, val))} although some are unknown")
                        except ValueError:
                            pass
                    if res.failures:
                        return
                cl = repo.coals(probe)
                if [bool(x) for x in g.are_values_known(cl)] != [known[s] for s in probe]:
                    res.fail(f"are_values_known(list) :: {w} {probe}")
                if not _same(g.get_lower_bounds(cl), [lows[s] for s in probe]) or not _same(g.get_upper_bounds(cl), [ups[s] for s in probe]):
                    res.fail(f"get_bounds(list) :: {w} {probe}")
                iv = np.asarray(g.get_intervals(cl))
                if not _same(iv[:, 0], [lows[s] for s in probe]) or not _same(iv[:, 1], [ups[s] for s in probe]):
                    res.fail(f"get_intervals(list) :: {w} {probe}")
                kvl = np.asarray(g.get_known_values(cl))
                for j, s in enumerate(probe):
                    if known[s] != (not math.isnan(kvl[j])) or (known[s] and not _feq(kvl[j], lows[s])):
                        res.fail(f"get_known_values(list) :: {w} {probe}: position {j}")
                if all(known[s] for s in probe):
                    if not _same(g.get_values(cl), [lows[s] for s in probe]):
                        res.fail(f"get_values(list) :: {w} {probe}")
                else:
                    try:
                        g.get_values(cl)
                        res.fail(f"unknown-value-returned :: {w}: get_values({probe}) did not raise although some are unknown")
                    except ValueError:
                        pass
            if all(known):
                if not _same(g.get_values(), lows):
                    res.fail(f"get_values :: {w}")
            else:
                try:
                    g.get_values()
                    res.fail(f"unknown-value-returned :: {w}: get_values() did not raise on an incomplete game")
                except ValueError:
                    pass
            if res.failures:
                return


def _feq(a, b) -> bool:
    a, b = float(a), float(b)
    return a == b   # -0.0 == 0.0 is fine: the object stores numbers, sign of zero is not observable through ==


def _same(arr, lst) -> bool:
    arr = [float(x) for x in arr]
    return len(arr) == len(lst) and all(a == b for a, b in zip(arr, lst))


@guarded
def check_case(case: dict) -> Result:
    res = Result()
    sim = Sim(case["n"])
    sim.check(res, [])
    # a fresh object knows exactly the empty coalition with value 0
    for i, op in enumerate(case["ops"]):
        if res.failures:
            break
        if op[0] == "neg_involution":
            _neg_involution(sim, op[1], res)
        else:
            sim.apply(op)
        sim.check(res, case.get("probes", {}).get(str(i), []))
        if res.failures:
            res.failures = [f"{m} (after op {i}: {op[0]})" for m in res.failures]
    res.nontrivial = sim.nontrivial
    res.label(f"n={case['n']}")
    return res


def _neg_involution(sim: Sim, t: int, res: Result) -> None:
    g = sim.objects[t]
    before = sim.repo.table_bytes(g)
    back = -(-g)
    if not (g == back):
        res.fail("negation-not-involution :: -(-g) != g")
    if sim.repo.table_bytes(g) != before:
        res.fail("negation-mutates-original :: table of g changed by -g")


def make_machine(max_n: int):
    class Machine(RuleBasedStateMachine):
        ctx: Ctx = None  # type: ignore[assignment]

        def __init__(self):
            super().__init__()
            self.sim = None
            self.case = None

        @initialize(n=st.integers(1, max_n))
        def init(self, n):
            self.sim = Sim(n)
            self.case = {"n": n, "ops": [], "probes": {}}
            self.pending_probe = []

        def _do(self, op, data=None):
            self.case["ops"].append(op)
            self.ctx.current_case = self.case
            if op[0] == "neg_involution":
                self.res_extra = Result()
                _neg_involution(self.sim, op[1], self.res_extra)
            else:
                self.res_extra = None
                self.sim.apply(op)
            if data is not None:
                size = 1 << self.sim.n
                probe = data.draw(st.lists(st.integers(0, size - 1), max_size=5))
                self.case["probes"][str(len(self.case["ops"]) - 1)] = probe
                self.pending_probe = probe
            else:
                self.pending_probe = []

        def _t(self, t):
            return t % len(self.sim.objects)

        def _masks(self, data, allow_none=True):
            size = 1 << self.sim.n
            if allow_none and data.draw(st.booleans()):
                return None, size
            if data.draw(st.integers(0, 7)) == 0:
                return [], 0           # an empty subset is not 'all coalitions': the call must change nothing (set_known: forget everything)
            masks = data.draw(st.lists(st.integers(0, size - 1), min_size=1, max_size=size, unique=True))
            return masks, len(masks)

        def _unknown(self, t):
            return [s for s, r in self.sim.models[t].rows.items() if not r[0]]

        def _known(self, t):
            return [s for s, r in self.sim.models[t].rows.items() if r[0]]

        @precondition(lambda self: self.sim is not None)
        @rule(t=st.integers(0, 9), s=st.integers(0, 2**20), x=VALUES, data=st.data())
        def set_value(self, t, s, x, data):
            self._do(["set", self._t(t), s % (1 << self.sim.n), x], data)

        @precondition(lambda self: self.sim is not None)
        @rule(t=st.integers(0, 9), s=st.integers(0, 2**20), data=st.data())
        def unset_value(self, t, s, data):
            self._do(["unset", self._t(t), s % (1 << self.sim.n)], data)

        @precondition(lambda self: self.sim is not None)
        @rule(t=st.integers(0, 9), i=st.integers(0, 2**20), x=VALUES)
        def reveal(self, t, i, x):
            t = self._t(t)
            u = self._unknown(t)
            if u:
                self._do(["reveal", t, u[i % len(u)], x])

        @precondition(lambda self: self.sim is not None)
        @rule(t=st.integers(0, 9), i=st.integers(0, 2**20))
        def unreveal(self, t, i):
            t = self._t(t)
            k = self._known(t)
            if k:
                self._do(["unreveal", t, k[i % len(k)]])

        @precondition(lambda self: self.sim is not None)
        @rule(t=st.integers(0, 9), kind=st.sampled_from(["set_values", "set_known", "set_uppers", "set_lowers"]), data=st.data())
        def bulk(self, t, kind, data):
            masks, cnt = self._masks(data)
            xs = data.draw(st.lists(VALUES, min_size=cnt, max_size=cnt))
            self._do([kind, self._t(t), masks, xs], data)

        @precondition(lambda self: self.sim is not None)
        @rule(t=st.integers(0, 9), i=st.integers(0, 2**20), x=VALUES, up=st.booleans())
        def scalar_bound(self, t, i, x, up):
            t = self._t(t)
            u = self._unknown(t)
            if u:
                self._do(["set_upper" if up else "set_lower", t, u[i % len(u)], x])

        @precondition(lambda self: self.sim is not None and len(self.sim.objects) < 4)
        @rule(t=st.integers(0, 9), neg=st.booleans())
        def derive(self, t, neg):
            self._do(["neg" if neg else "copy", self._t(t)])

        @precondition(lambda self: self.sim is not None)
        @rule(t=st.integers(0, 9))
        def neg_involution(self, t):
            self._do(["neg_involution", self._t(t)])

        @invariant()
        def agrees(self):
            if self.sim is None:
                return
            res = Result()
            extra = getattr(self, "res_extra", None)
            if extra is not None:
                res.failures.extend(extra.failures)
            self.sim.check(res, getattr(self, "pending_probe", []))
            if res.failures:
                res.nontrivial = self.sim.nontrivial
                self.ctx.judge(self.case, res)

        def teardown(self):
            if self.sim is None:
                return
            res = Result()
            res.nontrivial = self.sim.nontrivial
            res.label(f"n={self.sim.n}", f"objects={len(self.sim.objects)}")
            self.ctx.record(self.case, res)

    return Machine


def plan(tier: str) -> list[dict]:
    if tier == "quick":
        return [{"max_n": 5, "examples": 300, "steps": 30, "cost": 3} for _ in range(5)] + [{"mode": "fuzz", "runs": 4000, "cost": 3}]
    return ([{"max_n": 5, "examples": 700, "steps": 60, "cost": 10} for _ in range(14)]
            + [{"mode": "fuzz", "runs": 80000, "cost": 10} for _ in range(2)])


def run_fuzz(spec: dict, ctx: Ctx) -> None:
    """Coverage-guided extra (atheris / libFuzzer over Hypothesis' byte decoding); skipped when atheris is not installed."""
    import json
    import os
    import shutil
    import subprocess
    import sys
    import tempfile
    try:
        import atheris  # noqa: F401
    except Exception:  # noqa: BLE001
        ctx.labels["fuzz-skipped(atheris not installed)"] += 1
        return
    d = tempfile.mkdtemp(prefix="vp-c17-fuzz-")
    try:
        out = os.path.join(d, "out.json")
        r = subprocess.run([sys.executable, "-B", "-m", "vp.fuzz17", out, str(spec["runs"]), str(ctx.seed % (2**31)), d + "/"],
                           capture_output=True, text=True, timeout=3600)
        data = json.load(open(out)) if os.path.exists(out) else {"runs": 0, "failure": None}
        if data.get("failure"):
            f = data["failure"]
            res = check_case(f["case"])        # confirm outside the fuzzer
            ctx.record(f["case"], res)
            if res.failures:
                ctx.add_failure(f["case"], ["[coverage-guided] " + m for m in res.failures])
            else:
                ctx.labels["fuzz-crash-not-reproduced"] += 1
        elif r.returncode != 0:
            from ..core import HarnessError
            raise HarnessError(f"fuzzer exited with {r.returncode}: {r.stderr[-800:]}")
        ctx.extra["fuzz_executions"] = spec["runs"]
        ctx.labels["fuzz-shard"] += 1
    finally:
        shutil.rmtree(d, ignore_errors=True)


def run_shard(spec: dict, ctx: Ctx) -> None:
    if spec.get("mode") == "fuzz":
        run_fuzz(spec, ctx)
        return
    ctx.run_machine(make_machine(spec["max_n"]), spec["examples"], spec["steps"])
