"""C19  Saved results read back faithfully and are never overwritten."""
from __future__ import annotations

import json
import math
import shutil
import tempfile
from pathlib import Path

from hypothesis import strategies as st
from hypothesis.stateful import RuleBasedStateMachine, invariant, precondition, rule

from ..core import Ctx, Result, guarded

ID = "C19"
LEVEL = "exploration"
RULE = ("Hypothesis RuleBasedStateMachine over one temporary results file: rule save_json(name, Output) with names from a small "
        "alphabet (so repeats happen) plus Unicode names (a fresh Output per save, or ONE Output object given new matrices and arguments), matrices of drawn shapes (>=1 row and column; 2-D gap matrices, 2-D and 3-D "
        "action arrays) containing NaN, +-inf, negative, huge and subnormal numbers, metadata with str/int/float/bool/None/Path/"
        "tuple/nested dict/arbitrary objects. Model = dict name -> JSON image of the FIRST output saved under that name. After "
        "every save: get_outputs_from_file has exactly the model's names; data and actions equal the saved arrays (shape, values, NaN "
        "positions; compared as float64); metadata equals json.loads(json.dumps(original metadata, default=json_serializer)); "
        "Output.from_file agrees; entries saved earlier are the same JSON objects as before; a repeated name changes nothing; a save whose metadata cannot be serialised (tuple-keyed dict, object whose repr raises) fails without touching the file. "
        "Full save() pipeline (plots + JSON + coalition charts) on NaN-padded matrices: read-back equals what was handed in and the caller's arrays are unaltered. Command level: solve / greedy / ugreedy / best_states run through the real CLI parser on small configurations with the evaluation / "
        "search function wrapped by a recording spy: what is read back equals what the spy saw returned. Non-trivial: >= 3 saves with "
        "a repeated name and a matrix containing NaN; distinct = hash of the save history.")
LEVEL_TEXT = ("Model-based stateful search over save histories with a dictionary model and a byte-level 'earlier entries unchanged' "
              "invariant, plus end-to-end command runs with a spy as ground truth. Exploration; no proof.")
LEVEL_NOTE = "Three layers: save_json machine, full save() pipeline, CLI commands with a spy. Trusted: Python's json module as the definition of 'JSON stringification'. Zero-step runs (empty matrices) are outside the statement."
TECHNIQUE = "property-based testing: Hypothesis rule-based state machine vs dictionary model (round trip + no-overwrite invariant), command-level differential with a recording spy"
ASSUMPTIONS = ["matrices have at least one row and one column", "metadata keys are strings (they are argparse attribute names)"]


class Opaque:
    """An arbitrary non-JSON object (the serializer falls back to repr)."""

    def __init__(self, tag):
        self.tag = tag

    def __repr__(self):
        return f"Opaque({self.tag!r})"


class BadRepr:
    """An object whose repr raises: the fallback serializer fails in the middle of the dump."""

    def __repr__(self):
        raise RuntimeError("repr of a metadata value failed")


def build_meta(spec):
    """Turn the JSON description of metadata (which may name non-JSON types) into the real Python values."""
    if isinstance(spec, dict) and "__t" in spec:
        t = spec["__t"]
        if t == "path":
            return Path(spec["v"])
        if t == "tuple":
            return tuple(build_meta(x) for x in spec["v"])
        if t == "opaque":
            return Opaque(spec["v"])
        if t == "dict":
            return {k: build_meta(x) for k, x in spec["v"].items()}
        if t == "float":
            return float(spec["v"])
        if t == "tuplekeys":
            return {(1, 2): spec["v"]}          # json cannot serialise this dict: the save must fail cleanly
        if t == "badrepr":
            return BadRepr()
    if isinstance(spec, list):
        return [build_meta(x) for x in spec]
    return spec


def to_array(spec):
    import numpy as np
    a = np.array([float(x) for x in spec["flat"]], dtype=float).reshape(spec["shape"])
    if spec.get("int"):
        a = a.astype(int)
    return a


def make_output(out_spec):
    from argparse import Namespace
    from incomplete_cooperative.run.save import Output

    def eval_func():  # repr contains 'eval'
        return None

    def learn_func():
        return None
    meta = {k: build_meta(v) for k, v in out_spec["meta"].items()}
    ns = Namespace(func=eval_func if out_spec["func"] == "eval" else learn_func, **meta)
    return Output(to_array(out_spec["data"]), to_array(out_spec["actions"]), ns)


def arrays_equal(a, b) -> bool:
    import numpy as np
    a = np.asarray(a, dtype=float)
    b = np.asarray(b, dtype=float)
    return a.shape == b.shape and bool(np.array_equal(a, b, equal_nan=True))


class Sim:
    def __init__(self):
        self.dir = Path(tempfile.mkdtemp(prefix="vp-c19-"))
        self.path = self.dir / "data.json"
        self.model: dict[str, dict] = {}        # name -> {"data": array, "actions": array, "meta": json image}
        self.saves = 0
        self.repeated = False
        self.nan = False

    def close(self):
        shutil.rmtree(self.dir, ignore_errors=True)

    def save(self, name: str, out_spec: dict, res: Result) -> None:
        import numpy as np
        from incomplete_cooperative.run.save import Output, get_outputs_from_file, json_serializer, save_json
        out = make_output(out_spec)
        if out_spec.get("reuse"):
            # one Output object serves several saves (a sweep that keeps the object and assigns the new matrices / arguments)
            shared = getattr(self, "shared_output", None)
            if shared is None:
                self.shared_output = out
            else:
                shared.data, shared.actions, shared.parsed_args = out.data, out.actions, out.parsed_args
                out = shared
                res.label("output-object-reused")
        before_text = self.path.read_text() if self.path.exists() else None
        try:
            before = json.loads(before_text) if before_text is not None else {}
        except ValueError:
            res.fail(f"results-file-unparseable :: before saving {name!r} the results file no longer parses (an earlier save left it damaged); entries expected {sorted(self.model)}")
            return
        if out_spec.get("unserialisable"):
            # a save that cannot be serialised must fail without touching what is already in the file
            try:
                save_json(self.path, name, out)
                failed = False
            except (TypeError, ValueError, RuntimeError):
                failed = True
            after_text = self.path.read_text() if self.path.exists() else None
            if name in self.model or failed:
                if after_text != before_text:
                    res.fail(f"failed-save-damaged-file :: a save under {name!r} that could not be serialised changed the results file "
                             f"({len(before_text or '')} -> {len(after_text or '')} bytes); earlier entries {sorted(self.model)}")
                self.failed_saves = getattr(self, "failed_saves", 0) + 1
                return
            res.fail(f"harness :: unserialisable metadata was saved without error under {name!r}")
            return
        save_json(self.path, name, out)
        self.saves += 1
        if np.isnan(out.data).any():
            self.nan = True
        if name in self.model:
            self.repeated = True
            if self.path.read_text() != before_text:
                res.fail(f"repeated-name-changed-file :: saving under existing name {name!r} modified the file")
        else:
            image = json.loads(json.dumps(out.metadata, default=json_serializer))
            self.model[name] = {"data": out.data.copy(), "actions": out.actions.copy(), "meta": image}
        if not self.path.exists():
            res.fail("file-missing :: no results file after save")
            return
        try:
            raw = json.loads(self.path.read_text())
        except ValueError:
            res.fail(f"results-file-unparseable :: after saving {name!r} the results file does not parse; entries expected {sorted(self.model)}")
            return
        if set(raw) != set(self.model):
            res.fail(f"names :: file holds {sorted(raw)}, expected {sorted(self.model)}")
            return
        for k, v in before.items():
            if raw.get(k) != v and not (json.dumps(raw.get(k)) == json.dumps(v)):
                res.fail(f"earlier-entry-changed :: entry {k!r} differs after saving {name!r}")
        outs = get_outputs_from_file(self.path)
        if set(outs) != set(self.model):
            res.fail(f"names :: get_outputs_from_file returns {sorted(outs)}, expected {sorted(self.model)}")
            return
        for k, m in self.model.items():
            o = outs[k]
            if not arrays_equal(o.data, m["data"]):
                res.fail(f"data-roundtrip :: entry {k!r}: read {np.asarray(o.data).tolist()} saved {m['data'].tolist()}")
            if np.asarray(o.data).dtype != np.float64:
                res.fail(f"data-dtype :: entry {k!r}: {np.asarray(o.data).dtype}")
            if not arrays_equal(o.actions, m["actions"]):
                res.fail(f"actions-roundtrip :: entry {k!r}: read {np.asarray(o.actions).tolist()} saved {m['actions'].tolist()}")
            if not _json_eq(o.metadata, m["meta"]):
                res.fail(f"metadata-roundtrip :: entry {k!r}: read {o.metadata!r} expected {m['meta']!r}")
            o2 = Output.from_file(self.path, k)
            if not (arrays_equal(o2.data, m["data"]) and arrays_equal(o2.actions, m["actions"]) and _json_eq(o2.metadata, m["meta"])):
                res.fail(f"from_file-disagrees :: entry {k!r}")
            if res.failures:
                return


def _json_eq(a, b) -> bool:
    """Equality of JSON values with NaN == NaN."""
    if isinstance(a, float) and isinstance(b, float) and math.isnan(a) and math.isnan(b):
        return True
    if isinstance(a, dict) and isinstance(b, dict):
        return set(a) == set(b) and all(_json_eq(a[k], b[k]) for k in a)
    if isinstance(a, list) and isinstance(b, list):
        return len(a) == len(b) and all(_json_eq(x, y) for x, y in zip(a, b))
    return type(a) == type(b) and a == b or (isinstance(a, (int, float)) and isinstance(b, (int, float)) and not isinstance(a, bool) and not isinstance(b, bool) and a == b)


def _check_fullsave(case: dict) -> Result:
    """The whole save() pipeline (plots, JSON, coalition charts) on fresh names, with NaN-padded gap matrices: what is read
    back must be what was handed to save(), and the caller's arrays must not have been altered."""
    import numpy as np
    from incomplete_cooperative.run.save import get_outputs_from_file, save
    res = Result()
    d = Path(tempfile.mkdtemp(prefix="vp-c19f-"))
    try:
        expected = {}
        for i, (name, spec) in enumerate(case["saves"]):
            out = make_output(spec)
            data_before, actions_before = out.data.copy(), out.actions.copy()
            try:
                save(d, name, out)
            except FileExistsError:
                if name not in expected:
                    raise
                res.label("repeated-name-plot-dir-exists(accepted)")
            if not arrays_equal(out.data, data_before) or not arrays_equal(out.actions, actions_before):
                res.fail(f"save-mutates-caller-arrays :: save {i} ({name!r}): the Output's matrices were altered by save()")
            expected.setdefault(name, (data_before, actions_before))
            outs = get_outputs_from_file(d / "data.json")
            if set(outs) != set(expected):
                res.fail(f"names :: after save {i}: file holds {sorted(outs)}, expected {sorted(expected)}")
                break
            for k, (e, a) in expected.items():
                if not arrays_equal(outs[k].data, e):
                    res.fail(f"data-roundtrip :: entry {k!r} through save(): read {np.asarray(outs[k].data).tolist()} saved {e.tolist()}")
                if not arrays_equal(outs[k].actions, a):
                    res.fail(f"actions-roundtrip :: entry {k!r} through save(): read {np.asarray(outs[k].actions).tolist()} saved {a.tolist()}")
            if res.failures:
                break
    finally:
        shutil.rmtree(d, ignore_errors=True)
    res.nontrivial = len(case["saves"]) >= 2 and any(any(x != x for x in s_["data"]["flat"]) for _, s_ in case["saves"])
    res.label("full-save")
    return res


@st.composite
def fullsave_cases(draw):
    """Outputs shaped like real runs: gap matrix (steps+1) x repetitions with NaN padding, action ids of a small game."""
    saves = []
    names = draw(st.lists(st.sampled_from(["run1", "run2", "lr0.1", "lr0.2", "2024-01-01T00:00:00.5", "ü"]), min_size=2, max_size=3))
    for name in names:
        rows, cols = draw(st.integers(2, 4)), draw(st.integers(1, 3))
        flat = [draw(st.one_of(st.floats(0, 50, allow_nan=False), st.just(float("nan")), st.integers(0, 9).map(float))) for _ in range(rows * cols)]
        acts = [float(draw(st.sampled_from([3, 5, 6, 7, 9, 10, 11, 12, 13, 14]))) for _ in range((rows - 1) * cols)]
        saves.append([name, {"data": {"shape": [rows, cols], "flat": flat}, "actions": {"shape": [rows - 1, cols], "flat": acts},
                             "meta": {"number_of_players": 4, "solver": "greedy"}, "func": "eval"}])
    return {"kind": "fullsave", "saves": saves}


@guarded
def check_case(case: dict) -> Result:
    if case.get("kind") == "command":
        return _check_command(case)
    if case.get("kind") == "fullsave":
        return _check_fullsave(case)
    res = Result()
    sim = Sim()
    try:
        for i, (name, out_spec) in enumerate(case["saves"]):
            sim.save(name, out_spec, res)
            if res.failures:
                res.failures = [f"{m} (save {i})" for m in res.failures]
                break
        res.nontrivial = sim.saves >= 3 and sim.repeated and sim.nan
        res.label(f"saves>={min(sim.saves // 3 * 3, 9)}")
        if sim.repeated:
            res.label("repeated-name")
        if sim.nan:
            res.label("nan-in-data")
    finally:
        sim.close()
    return res


# -- strategies ----------------------------------------------------------------------------------------

NAMES = st.one_of(st.sampled_from(["a", "b", "run", "2024-01-01T00:00:00", "x y", "ü", "名前", "a/b", ""]),
                  st.text(min_size=1, max_size=6))

NUMS = st.one_of(st.floats(allow_nan=True, allow_infinity=True), st.integers(-50, 50).map(float),
                 st.sampled_from([float("nan"), float("inf"), float("-inf"), 5e-324, 1.7976931348623157e308, -0.0, 1e-310]),
                 st.floats(-1e6, 1e6, allow_nan=False))


@st.composite
def array_specs(draw, dims):
    shape = [draw(st.integers(1, 4)) for _ in range(dims)]
    size = 1
    for d in shape:
        size *= d
    as_int = draw(st.integers(0, 5)) == 0
    if as_int:
        flat = [float(x) for x in draw(st.lists(st.integers(-1000, 1000), min_size=size, max_size=size))]
    else:
        flat = draw(st.lists(NUMS, min_size=size, max_size=size))
    return {"shape": shape, "flat": flat, "int": as_int}


META_LEAF = st.one_of(st.none(), st.booleans(), st.integers(-10**6, 10**6), st.text(max_size=8),
                      st.floats(allow_nan=False, allow_infinity=False).map(lambda x: {"__t": "float", "v": x}),
                      st.text(min_size=1, max_size=8).map(lambda s: {"__t": "path", "v": "dir/" + s.replace("\x00", "")}),
                      st.text(max_size=5).map(lambda s: {"__t": "opaque", "v": s}))
META_VAL = st.recursive(META_LEAF, lambda ch: st.one_of(
    st.lists(ch, max_size=3),
    st.lists(ch, max_size=3).map(lambda v: {"__t": "tuple", "v": v}),
    st.dictionaries(st.text(max_size=4), ch, max_size=3).map(lambda d: {"__t": "dict", "v": d})), max_leaves=6)


@st.composite
def out_specs(draw):
    keys = st.sampled_from(["number_of_players", "game_generator", "model_dir", "seed", "solver", "unique_name", "k", "opt", "x_y", "gamma"])
    meta = draw(st.dictionaries(keys, META_VAL, max_size=5))
    meta = {k: v for k, v in meta.items() if k not in ("func", "run_type")}
    return {"data": draw(array_specs(2)), "actions": draw(array_specs(draw(st.sampled_from([2, 2, 3])))),
            "meta": meta, "func": draw(st.sampled_from(["eval", "learn"]))}


def make_machine():
    class Machine(RuleBasedStateMachine):
        ctx: Ctx = None  # type: ignore[assignment]

        def __init__(self):
            super().__init__()
            self.sim = Sim()
            self.case = {"saves": []}
            self.res = Result()

        @rule(name=NAMES, out=out_specs(), reuse=st.booleans())
        def save(self, name, out, reuse):
            if reuse:
                out = dict(out, reuse=True)
            self.case["saves"].append([name, out])
            self.ctx.current_case = self.case
            self.sim.save(name, out, self.res)

        @rule(name=NAMES, out=out_specs(), kind=st.sampled_from(["tuplekeys", "badrepr"]))
        def save_unserialisable(self, name, out, kind):
            out = dict(out)
            out["meta"] = {**out["meta"], "k": {"__t": kind, "v": 1}}
            out["unserialisable"] = True
            self.case["saves"].append([name, out])
            self.ctx.current_case = self.case
            self.sim.save(name, out, self.res)

        @precondition(lambda self: self.sim.model)
        @rule(i=st.integers(0, 99), out=out_specs())
        def save_existing_name(self, i, out):
            names = sorted(self.sim.model)
            name = names[i % len(names)]
            self.case["saves"].append([name, out])
            self.ctx.current_case = self.case
            self.sim.save(name, out, self.res)

        @invariant()
        def holds(self):
            if self.res.failures:
                self.ctx.judge(self.case, self.res)

        def teardown(self):
            res = Result()
            res.nontrivial = self.sim.saves >= 3 and self.sim.repeated and self.sim.nan
            res.label(f"saves>={min(self.sim.saves // 3 * 3, 9)}")
            if self.sim.repeated:
                res.label("repeated-name")
            if self.sim.nan:
                res.label("nan-in-data")
            self.ctx.record(self.case, res)
            self.sim.close()

    return Machine


# -- command level ----------------------------------------------------------------------------------------


def _check_command(case: dict) -> Result:
    import numpy as np
    from incomplete_cooperative.__main__ import get_argument_parser, main
    from incomplete_cooperative.run import best_states as bs_mod
    from incomplete_cooperative.run import greedy as greedy_mod
    from incomplete_cooperative.run import solve as solve_mod
    from incomplete_cooperative.run.save import get_outputs_from_file
    res = Result()
    d = Path(tempfile.mkdtemp(prefix="vp-c19c-"))
    seen: dict = {}
    targets = {"solve": (solve_mod, "evaluate"), "greedy": (greedy_mod, "get_greedy_rewards"), "ugreedy": (greedy_mod, "get_greedy_rewards"),
               "best_states": (bs_mod, "get_best_exploitability")}
    mod, attr = targets[case["command"]]
    orig = getattr(mod, attr)

    def spy(*a, **kw):
        out = orig(*a, **kw)
        seen.setdefault("calls", []).append(out)
        return out
    setattr(mod, attr, spy)
    try:
        names = case["names"]
        for name in names:
            argv = ["prog", "--number-of-players", str(case["n"]), "--model-dir", str(d), "--unique-name", name,
                    "--run-steps-limit", str(case["limit"]), "--seed", str(case["seed"]), "--game-generator", case["generator"],
                    "--gap-function", case["gap"], "--game-class", case["computer"], "--parallel-environments", str(case["procs"])]
            if case["command"] == "solve":
                argv += ["solve", "--solver", case["solver"], "--solve-repetitions", str(case["reps"])]
            elif case["command"] in ("greedy", "ugreedy"):
                argv += [case["command"], "--sampling-repetitions", str(case["reps"])]
            else:
                argv += ["best_states", "--sampling-repetitions", str(case["reps"]), "--eval-repetitions", str(case["eval_reps"])]
            n_before = len(seen.get("calls", []))
            first_time = name not in seen.setdefault("expected", {})
            try:
                main(get_argument_parser(), argv)
            except FileExistsError:
                if first_time:
                    raise
                res.label("repeated-name-plot-dir-exists(accepted)")
            calls = seen.get("calls", [])[n_before:]
            if first_time:
                if case["command"] == "solve":
                    expl, acts = calls[0]
                elif case["command"] in ("greedy", "ugreedy"):
                    expl, chosen = calls[0]
                    acts = np.reshape(np.array(chosen), (len(chosen), 1))
                else:
                    expl = np.hstack([c[0] for c in calls])
                    L = case["limit"]
                    acts = np.full((L + 1, case["eval_reps"], L), np.nan)
                    for rep, c in enumerate(calls):
                        for e, ids in enumerate(c[1]):
                            for j, x in enumerate(ids):
                                acts[e, rep, j] = x
                seen["expected"][name] = (np.array(expl, dtype=float), np.array(acts, dtype=float))
            path = d / "data.json"
            outs = get_outputs_from_file(path)
            if set(outs) != set(seen["expected"]):
                res.fail(f"command-names :: {case['command']}: file holds {sorted(outs)}, expected {sorted(seen['expected'])}")
                break
            for k, (e, a) in seen["expected"].items():
                if not arrays_equal(outs[k].data, e):
                    res.fail(f"command-data :: {case['command']} entry {k!r}: file {np.asarray(outs[k].data).tolist()} computed {e.tolist()}")
                if not arrays_equal(outs[k].actions, a):
                    res.fail(f"command-actions :: {case['command']} entry {k!r}: file {np.asarray(outs[k].actions).tolist()} computed {a.tolist()}")
                md = outs[k].metadata
                if md.get("unique_name") != k or md.get("number_of_players") != case["n"] or md.get("game_generator") != case["generator"]:
                    res.fail(f"command-metadata :: {case['command']} entry {k!r}: {md}")
            if res.failures:
                break
    finally:
        setattr(mod, attr, orig)
        shutil.rmtree(d, ignore_errors=True)
    res.nontrivial = len(set(case["names"])) < len(case["names"]) or len(case["names"]) >= 2
    res.label("command=" + case["command"])
    return res


@st.composite
def command_cases(draw):
    cmd = draw(st.sampled_from(["solve", "greedy", "best_states", "best_states", "ugreedy"]))
    n = 3
    # run names as users write them: plain, hyper-parameter style with dots, ISO timestamps differing in the fraction
    pool = draw(st.sampled_from([["r1", "r2", "r3"], ["lr0.001", "lr0.002", "lr0.001"], ["a", "a.x", "a.y"],
                                 ["2024-01-01T00:00:00.123", "2024-01-01T00:00:00.124", "2024-01-01T00:00:01"], ["x y", "ü", "r1"]]))
    names = draw(st.lists(st.sampled_from(pool), min_size=2, max_size=3))
    return {"kind": "command", "command": cmd, "n": n, "limit": draw(st.integers(1, 2)), "seed": draw(st.integers(0, 10**6)),
            "generator": draw(st.sampled_from(["factory", "noisy_factory", "xos", "graph_random"])),
            "gap": draw(st.sampled_from(["exploitability", "l1_norm"])), "computer": draw(st.sampled_from(["superadditive", "superadditive_cached"])),
            "procs": draw(st.sampled_from([1, 2])), "solver": draw(st.sampled_from(["greedy", "largest", "random"])),
            "reps": draw(st.sampled_from([2, 3, 1])), "eval_reps": draw(st.sampled_from([2, 1])), "names": names}


def plan(tier: str) -> list[dict]:
    if tier == "quick":
        return ([{"mode": "machine", "examples": 120, "steps": 8, "cost": 4} for _ in range(4)] + [{"mode": "command", "examples": 3, "cost": 6} for _ in range(3)]
                + [{"mode": "fullsave", "examples": 6, "cost": 6} for _ in range(2)])
    return [{"mode": "machine", "examples": 2000, "steps": 12, "cost": 10} for _ in range(11)] + [{"mode": "command", "examples": 25, "cost": 12} for _ in range(3)] + [{"mode": "fullsave", "examples": 60, "cost": 12} for _ in range(2)]


def run_shard(spec: dict, ctx: Ctx) -> None:
    if spec["mode"] == "fullsave":
        ctx.run_given(fullsave_cases(), check_case, spec["examples"], shrink=False)
    elif spec["mode"] == "machine":
        ctx.run_machine(make_machine(), spec["examples"], spec["steps"])
    else:
        ctx.run_given(command_cases(), check_case, spec["examples"], shrink=False)
