"""C11  Exhaustive search evaluates each reveal set once, correctly; finds the optimum."""
from __future__ import annotations

import itertools

from hypothesis import strategies as st

from ..core import Ctx, Result, guarded
from ..games import sam_games, superadditive_games
from ..oracles import gap_tol, minimal_masks, ref_gap

ID = "C11"
LEVEL = "exploration"
PROCS = (1, 2, 3, 5, 16)
RULE = ("Hypothesis: n=3..4 (5 with k<=2 in thorough), hidden game(s) from harness constructions / registered families, starting "
        "knowledge K0 = minimal + drawn extras, size limit k (or None), gap function, computer, worker-process counts drawn from "
        "{1,2,3,5,16}. Oracles: (1) get_exploitabilities_of_action_sequences returns exactly one entry per subset of size <= k of "
        "the unknown coalitions (multiset equality with itertools.combinations over an own list), sizes non-decreasing, each value == "
        "gap of a FRESH object knowing K0 + the set (independent gap oracle); (2) identical lists for every process count - in half of the cases all searches (the single-process one twice) are made on ONE incomplete-game object, which must come back unchanged whatever the process count; (3) "
        "MetaGame.get_value agrees; (4) sample_exploitabilities_of_action_sequences: row j is the result for game j of a cyclic "
        "list; (5) get_best_exploitability: per size the reported row is the gap vector of the reported set, its mean the minimum "
        "over ALL sets of that size (own brute force), curve non-increasing for games of the class. Non-trivial: K0 strictly larger "
        "than minimal or k >= 2, and a process count > 1 compared; distinct = hash of the case.")
LEVEL_TEXT = ("Generated configurations with an own brute-force enumeration as reference (complete for the sizes involved) and "
              "differential comparison across worker-process counts. The OS scheduler is not controlled; the property only depends on "
              "task chunking (a function of list length and process count), which is what is varied.")
LEVEL_NOTE = "Trusted: fresh-object bounds (C01-C03), vp/oracles.py gaps. n<=4 quick (n=5, k<=2 thorough). Pool start-up dominates cost."
TECHNIQUE = "property-based testing: Hypothesis-generated search configurations vs own brute-force enumeration, differential over worker-process counts"
ASSUMPTIONS = ["rows for sizes larger than the number of unknown coalitions keep the library's placeholder and are not judged"]


def _fresh_gap(n, comp, gap, v, K):
    from .. import repo
    g = repo.new_game(n, comp)
    repo.set_knowledge(g, v, K)
    g.compute_bounds()
    _, lo, up = repo.table(g)
    return ref_gap(gap, lo, up, n), gap_tol(gap, lo, up, n)


@guarded
def check_case(case: dict) -> Result:
    import numpy as np
    from incomplete_cooperative.gameplay import (get_exploitabilities_of_action_sequences,
                                                 sample_exploitabilities_of_action_sequences)
    from incomplete_cooperative.meta_game import MetaGame
    from .. import libgames, repo
    from .c09 import _gap_fn
    res = Result()
    n, comp, gap, k = case["n"], case["computer"], case["gap"], case["k"]
    specs = case["games"]
    vals = [libgames.spec_values(s) for s in specs]
    gf = _gap_fn(gap)
    mins = minimal_masks(n)
    K0 = mins | set(case["extra"])
    unknown = [s for s in range(1 << n) if s not in K0]
    kk = len(unknown) if k is None else min(k, len(unknown))
    want_sets = [frozenset(c) for r in range(kk + 1) for c in itertools.combinations(unknown, r)]
    scale = max(max(abs(x) for x in v) for v in vals) + 1.0
    v0 = vals[0]
    full0 = libgames.spec_game(specs[0])
    base = None
    shared = None
    state0 = None
    procs = list(case["procs"])
    if case.get("same_object"):
        # one incomplete-game object serves all searches (a sweep over process counts on one object); the single-process search
        # runs twice.  The object handed in must come back as it went in, whatever the process count.
        shared = repo.new_game(n, comp)
        repo.set_knowledge(shared, v0, K0)
        state0 = repo.table_bytes(shared)
        procs = [procs[0]] + procs
        res.label("same-object")
    for p in procs:
        if shared is not None:
            game = shared
        else:
            game = repo.new_game(n, comp)
            repo.set_knowledge(game, v0, K0)
        out = list(get_exploitabilities_of_action_sequences(game, full0, gf, k, p))
        if shared is not None and repo.table_bytes(shared) != state0:
            known_now = sorted(s for s, f in enumerate(repo.table(shared)[0]) if f)
            res.fail(f"search-alters-callers-game :: n={n} k={k} p={p}: the incomplete game handed to the search knows {known_now} afterwards, "
                     f"it knew {sorted(K0)} before (depends on the process count: a pool works on copies)")
            break
        got_sets = [frozenset(c.id for c in seq) for seq, _ in out]
        w = f"n={n} k={k} p={p}"
        if sorted(map(sorted, got_sets)) != sorted(map(sorted, want_sets)):
            missing = [sorted(x) for x in set(want_sets) - set(got_sets)][:3]
            extra = [sorted(x) for x in got_sets if x not in set(want_sets)][:3]
            res.fail(f"enumeration :: {w}: {len(got_sets)} entries, expected {len(want_sets)}; missing {missing} unexpected {extra}")
            break
        if any(len(seq) != len(set(c.id for c in seq)) for seq, _ in out):
            res.fail(f"enumeration :: {w}: a sequence repeats a coalition")
        sizes = [len(x) for x in got_sets]
        if sizes != sorted(sizes):
            res.fail(f"order :: {w}: sizes not non-decreasing")
        if base is None:
            for (seq, val), st_ in zip(out, got_sets):
                want, tol = _fresh_gap(n, comp, gap, v0, K0 | set(st_))
                if abs(float(val) - want) > tol:
                    res.fail(f"value :: {w}: set {sorted(st_)} reported {float(val)!r}, gap of fresh object with K0+set = {want!r}")
                    break
            base = [(sorted(st_), float(val)) for (seq, val), st_ in zip(out, got_sets)]
        else:
            cur = [(sorted(st_), float(val)) for (seq, val), st_ in zip(out, got_sets)]
            if cur != base:
                res.fail(f"process-dependent :: {w}: result differs from processes={case['procs'][0]}")
        if res.failures:
            break
    # (3) meta game (K0 is minimal there by definition)
    if not res.failures and case.get("meta"):
        inc = repo.new_game(n, comp)
        mg = MetaGame(libgames.spec_game(specs[0]), inc, gf)
        players = [s for s in range(1 << n) if s not in mins]
        if [c.id for c in mg.players] != players or mg.number_of_players != len(players):
            res.fail(f"meta-players :: n={n}: {[c.id for c in mg.players]}")
        for mask in case["meta"]:
            chosen = {players[i] for i in range(len(players)) if mask >> i & 1}
            got = float(mg.get_value(repo.coal(mask)))
            want, tol = _fresh_gap(n, comp, gap, v0, mins | chosen)
            if abs(got - want) > tol:
                res.fail(f"meta-value :: n={n}: meta-coalition {mask} (coalitions {sorted(chosen)}) = {got!r}, expected {want!r}")
        res.label("meta")
    # (4) sampling over a cyclic list, (5) best states
    if not res.failures and case.get("best"):
        from incomplete_cooperative.coalitions import minimal_game_coalitions
        from incomplete_cooperative.icg_gym import ICG_Gym
        from incomplete_cooperative.run.best_states import get_best_exploitability
        R = len(specs)
        kb = case["best"]["k"]
        pb = case["best"]["p"]
        counter = {"calls": 0}

        def gen():
            spec = specs[counter["calls"] % R]
            counter["calls"] += 1
            return libgames.spec_game(spec)

        inc = repo.new_game(n, comp)
        env = ICG_Gym(inc, gen, minimal_game_coalitions(inc), gf, done_after_n_actions=None)
        start = counter["calls"]
        # (4)
        game = repo.new_game(n, comp)
        repo.set_knowledge(game, v0, mins)
        actions, values = sample_exploitabilities_of_action_sequences(game, lambda _n: gen(), gf, samples=R, max_size=kb, processes=pb)
        order = [(start + j) % R for j in range(R)]
        unk = [s for s in range(1 << n) if s not in mins]
        sets = [frozenset(c.id for c in seq) for seq in actions]
        want = [frozenset(c) for r in range(min(kb, len(unk)) + 1) for c in itertools.combinations(unk, r)]
        if sorted(map(sorted, sets)) != sorted(map(sorted, want)):
            res.fail(f"sample-enumeration :: n={n} k={kb}: {len(sets)} action sets, expected {len(want)}")
        elif values.shape != (R, len(sets)):
            res.fail(f"sample-shape :: {values.shape}")
        else:
            table = {}
            max_tol = 0.0
            for j in range(R):
                for i, st_ in enumerate(sets):
                    wv, tol = _fresh_gap(n, comp, gap, vals[order[j]], mins | set(st_))
                    max_tol = max(max_tol, tol)
                    table[(order[j], st_)] = wv
                    if abs(float(values[j, i]) - wv) > tol:
                        res.fail(f"sample-row :: n={n}: row {j} (game {order[j]}) set {sorted(st_)} = {float(values[j, i])!r}, expected {wv!r}")
                        break
                if res.failures:
                    break
            # (5)
            if not res.failures:
                start2 = counter["calls"]
                best, best_actions = get_best_exploitability(env, kb, R, gf, processes=pb)
                order2 = [(start2 + j) % R for j in range(R)]
                # tolerance from the arithmetic (gap evaluation error), not a fraction of the scale: near-ties must be told apart
                tol = 4 * max_tol + 1e-13 * scale
                prev_mean = None
                for s in range(0, kb + 1):
                    cands = [st_ for st_ in want if len(st_) == s]
                    if not cands:
                        continue
                    ids = best_actions[s]
                    if len(set(ids)) != s or any(i not in unk for i in ids):
                        res.fail(f"best-set :: n={n} size {s}: reported ids {ids} are not {s} distinct unknown coalitions")
                        continue
                    row = [table[(order2[j], frozenset(ids))] for j in range(R)]
                    if any(abs(float(best[s, j]) - row[j]) > tol for j in range(R)):
                        res.fail(f"best-row :: n={n} size {s}: row {best[s].tolist()} is not the gap vector {row} of the reported set {ids}")
                    mean = float(np.mean(best[s]))
                    true_min = min(sum(table[(g, c)] for g in range(R)) / R for c in cands)
                    if abs(mean - true_min) > tol:
                        res.fail(f"best-not-minimal :: n={n} size {s}: reported mean {mean!r}, minimum over all {len(cands)} sets is {true_min!r}")
                    if prev_mean is not None and mean > prev_mean + tol and not specs[0].get("how", "").startswith("harness-arbitrary"):
                        res.fail(f"best-curve-increases :: n={n}: {prev_mean!r} -> {mean!r} at size {s}")
                    prev_mean = mean
                res.label("best-states")
    res.nontrivial = (len(K0) > len(mins) or (k is None or k >= 2)) and any(p > 1 for p in case["procs"])
    res.label(f"n={n}", f"comp={comp}", f"gap={gap}", f"k={k}", f"procs={case['procs']}")
    return res


@st.composite
def cases(draw, n_max: int):
    from .. import libgames
    n = draw(st.integers(3, n_max))
    want_best = n <= 4 and draw(st.integers(0, 2)) == 0
    # the optimum search is where negative gaps (games outside the class, rounding residues of float games) matter most
    src = draw(st.sampled_from(["arbitrary", "near-tie", "near-tie", "lib", "sa"] if want_best else ["sa", "sam", "lib", "arbitrary"]))
    R = draw(st.integers(1, 3))
    if src == "near-tie":
        # integer game (many exact ties between reveal sets) plus a tiny exactly representable perturbation: reveal sets of one
        # size whose mean gaps differ by 2^-21 .. 2^-30 - the optimum must still be the true minimum
        from ..games import build_superadditive
        eps_ = 2.0 ** -draw(st.sampled_from([21, 24, 30]))
        games = []
        for _ in range(R):
            singles = draw(st.lists(st.integers(-6, 6), min_size=n, max_size=n))
            sur = draw(st.lists(st.integers(0, 3), min_size=1 << n, max_size=1 << n))
            bump = draw(st.lists(st.integers(0, 2), min_size=1 << n, max_size=1 << n))
            v = build_superadditive(n, [float(x) for x in singles], [float(a) + eps_ * b for a, b in zip(sur, bump)])
            games.append(dict(kind="table", n=n, v=[float(x) for x in v], how="harness-near-tie"))
        comp = draw(st.sampled_from(["superadditive", "superadditive_cached"]))
    elif src == "arbitrary":
        # "for any game": enumeration, per-set values and the per-size minimum do not depend on the class (gaps may be negative)
        from ..games import arbitrary_games
        games = [dict(kind="table", n=n, v=draw(arbitrary_games(n, n, classes=("int", "dyadic")))["v"], how="harness-arbitrary") for _ in range(R)]
        comp = draw(st.sampled_from(["superadditive", "superadditive_cached"]))
    elif src == "sa":
        games = [dict(kind="table", n=n, v=draw(superadditive_games(n, n))["v"], how="harness-sa") for _ in range(R)]
        comp = draw(st.sampled_from(["superadditive", "superadditive_cached"]))
    elif src == "sam":
        games = [dict(kind="table", n=n, v=draw(sam_games(n, n))["v"], how="harness-sam") for _ in range(R)]
        comp = draw(st.sampled_from(["sam_apx_1", "superadditive_cached"]))
    else:
        name = draw(st.sampled_from(["noisy_factory", "noisy_factory", "noisy_factory_square", "factory", "xos", "graph_random", "graph_beta_2_3", "factory_cheerleader_next", "k_budget_generator"]))
        seed = draw(st.integers(0, 2**31))
        games = [libgames.lib_spec(name, n, seed + j) for j in range(R)]
        comp = draw(st.sampled_from(["superadditive", "superadditive_cached"]))
    mins = minimal_masks(n)
    rest = [s for s in range(1 << n) if s not in mins]
    extra = draw(st.lists(st.sampled_from(rest), max_size=min(3, len(rest) - 1), unique=True)) if draw(st.booleans()) else []
    nunk = len(rest) - len(extra)
    if n >= 5:
        k = draw(st.integers(0, 2))
    elif n == 4:
        k = draw(st.sampled_from([0, 1, 2, 2, 3, None if nunk <= 8 else 3]))
    else:
        k = draw(st.sampled_from([0, 1, 2, 3, None, 7]))
    procs = [1] + sorted(draw(st.lists(st.sampled_from(PROCS[1:]), min_size=1, max_size=2, unique=True)))
    nplayers = len(rest)
    meta = draw(st.lists(st.integers(0, (1 << nplayers) - 1), max_size=3)) if n <= 4 else []
    best = None
    if want_best:
        # sizes up to "everything revealed" (n=3) / deep into the lattice (n=4, where large sets already determine the game)
        best = {"k": draw(st.sampled_from([1, 2, 3] if n == 3 else [1, 2, 2, 3, 8, 10])), "p": draw(st.sampled_from([1, 2, 3]))}
        if best["k"] >= 8:
            games = games[:1] if src != "lib" else games[:2]
    gaps = ["exploitability", "exploitability", "exploitability", "l1_norm"] if want_best else ["exploitability", "l1_norm", "l2_norm", "linf_norm"]
    return {"n": n, "games": games, "computer": comp, "gap": draw(st.sampled_from(gaps)),
            "k": k, "extra": sorted(extra), "procs": procs, "meta": meta, "best": best, "same_object": draw(st.booleans())}


def _sample(case):
    c = dict(case)
    c["games"] = [{k: (v if k != "v" or len(v) <= 16 else v[:16] + ["..."]) for k, v in g.items()} for g in case["games"][:2]]
    return c


def plan(tier: str) -> list[dict]:
    if tier == "quick":
        return [{"n_max": 4, "examples": 24, "cost": 5} for _ in range(4)]
    return [{"n_max": 4, "examples": 300, "cost": 10} for _ in range(13)] + [{"n_max": 5, "examples": 60, "cost": 12} for _ in range(3)]


def run_shard(spec: dict, ctx: Ctx) -> None:
    ctx.run_given(cases(spec["n_max"]), check_case, spec["examples"], shrink=False, sample_of=_sample)
