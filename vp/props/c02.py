"""C02  Superadditive bounds are tight.

(a) equality with the statement's closed form computed independently: lower(S) = best total of a partition of S
    into known coalitions, upper(S) = min over known T > S of v(T) - lower(T \\ S);
(b) LP (scipy HiGHS) over the polytope of superadditive completions: min / max of x_S equal lower / upper and the
    optimal vertex is a superadditive game agreeing with the knowledge (the "attained" clause);
(c) solver-free witness for the lower side: the library's lower-bound vector, read as a game, is superadditive
    and agrees with v on K.
"""
from __future__ import annotations

from hypothesis import strategies as st

from ..core import Ctx, Result, guarded
from ..games import EXACT, knowledge_sets, scale_of, seeded_knowledge, superadditive_games
from ..oracles import is_sa, lp_extreme, minimal_masks, ref_sa_bounds, sa_violations

ID = "C02"
LEVEL = "exploration"
COMPUTERS = ("superadditive", "superadditive_cached")
RULE = ("Hypothesis: superadditive game (surplus construction, int/dyadic/float) x knowledge set K >= minimal "
        "information (density drawn first) x both computers; the object reaches K by bulk reset, by single reveals with recomputes, or by a bulk set_values after a first compute (the bounds must not depend on the way). Oracles: exact partition/superset closed "
        "form of the statement in independent code; LP extremes over all superadditive completions for n<=5 (optimal "
        "vertex validated); lower-bound vector is itself a superadditive completion. Non-trivial: some unknown "
        "coalition has a non-degenerate interval AND some known non-minimal coalition strictly tightens a bound "
        "relative to minimal-information bounds (measured); distinct = hash of (game, K).")
LEVEL_TEXT = ("Generated-input search with two independent optimality oracles (exact closed form in separate code; LP over the "
              "completion polytope with witness validation). Tightness quantifies over all completions, which the LP decides "
              "per case; the for-all over (game, K) is explored, not proved.")
LEVEL_NOTE = ("Trusted: scipy/HiGHS where it reports optimality (other statuses are counted inconclusive), the harness's "
              "superadditive construction, Hypothesis. LP part bounded to n<=5, closed form to n<=7.")
TECHNIQUE = "property-based testing: Hypothesis-generated (game, knowledge) pairs vs exact closed-form oracle and LP optimum (differential)"
ASSUMPTIONS = [
    "exact equality on int/dyadic games, 1e-9*scale on float games",
    "LP optimum compared within 1e-6*(1+scale); non-optimal solver status = inconclusive, never a violation",
]


@st.composite
def cases(draw, max_n: int, lp: bool):
    game = draw(superadditive_games(3, max_n, explicit_up_to=5))
    n = game["n"]
    k = draw(knowledge_sets(n)) if n <= 6 else seeded_knowledge(n, draw(st.integers(0, 2**31)))
    case = {"game": game, "K": k, "lp": [], "assembly": draw(st.sampled_from(["reset", "reset", "reveal-each", "bulk-after-compute", "reveal-then-bulk"]))}
    if lp:
        unknown = [s for s in range(1 << n) if s not in set(k)]
        if unknown:
            idx = draw(st.lists(st.integers(0, len(unknown) - 1), min_size=1, max_size=4, unique=True))
            case["lp"] = [unknown[i] for i in idx]
    return case


def _assemble(repo, g, v, K, n, how: str) -> None:
    """Bring the object to knowledge K in different legal ways; the bounds must not depend on the way."""
    import numpy as np
    mins = sorted(minimal_masks(n))
    extra = sorted(set(K) - set(mins))
    if how == "reset" or not extra:
        repo.set_knowledge(g, v, K)
        return
    repo.set_knowledge(g, v, mins)
    g.compute_bounds()
    if how == "reveal-each":
        for m in extra:
            g.reveal_value(v[m], repo.coal(m))
            g.compute_bounds()
    elif how == "bulk-after-compute":
        g.set_values(np.array([v[m] for m in extra], dtype=float), repo.coals(extra))
    else:
        half = extra[: len(extra) // 2]
        for m in half:
            g.reveal_value(v[m], repo.coal(m))
        g.compute_bounds()
        rest = extra[len(extra) // 2:]
        g.set_values(np.array([v[m] for m in rest], dtype=float), repo.coals(rest))


@guarded
def check_case(case: dict) -> Result:
    from .. import repo
    res = Result()
    game = case["game"]
    n, v, cls = game["n"], game["v"], game["cls"]
    K = set(case["K"])
    scale = scale_of(v)
    tol = 0.0 if cls in EXACT else 1e-9 * scale
    ref_lo, ref_up = ref_sa_bounds(v, K, n, partition_form=True)
    min_lo, min_up = ref_sa_bounds(v, minimal_masks(n), n, partition_form=True)
    tables = {}
    for name in case.get("computers", COMPUTERS):
        g = repo.new_game(n, name)
        _assemble(repo, g, v, K, n, case.get("assembly", "reset"))
        g.compute_bounds()
        known, lower, upper = repo.table(g)
        tables[name] = (lower, upper)
        for s in range(1 << n):
            if abs(lower[s] - ref_lo[s]) > tol:
                res.fail(f"lower!=closed-form :: {name}: coalition {s} lower {lower[s]!r}, best partition total {ref_lo[s]!r}")
            if abs(upper[s] - ref_up[s]) > tol:
                res.fail(f"upper!=closed-form :: {name}: coalition {s} upper {upper[s]!r}, min over known supersets {ref_up[s]!r}")
        # (c) the lower vector is a completion: superadditive and equal to v on K
        if not is_sa(lower, n, tol * 4):
            a, b = sa_violations(lower, n, tol * 4)[0]
            res.fail(f"lower-vector-not-superadditive :: {name}: lower({a})+lower({b}) > lower({a | b})")
        for s in K:
            if lower[s] != v[s]:
                res.fail(f"lower-vector-disagrees-on-K :: {name}: coalition {s}")
    # (b) LP extremes
    lp_tol = 1e-6 * (1 + scale)
    for s in case.get("lp", []):
        for sense, which in ((1, "min"), (-1, "max")):
            status, opt, witness = lp_extreme(v, K, n, s, sense)
            if status != 0:
                res.inconclusive.append(f"lp-status-{status}")
                continue
            res.label("lp")
            for name, (lower, upper) in tables.items():
                mine = lower[s] if sense == 1 else upper[s]
                if abs(mine - opt) > lp_tol:
                    res.fail(f"bound!=LP-{which} :: {name}: coalition {s} bound {mine!r}, LP {which} over superadditive completions {opt!r}")
            # validity of the witness
            if any(abs(witness[k] - v[k]) > 0 for k in K):
                res.fail("harness :: LP witness disagrees with K")
            if not is_sa(witness, n, 1e-7 * (1 + scale)):
                res.inconclusive.append("lp-witness-not-sa-within-1e-7")
    # classification
    unknown = [s for s in range(1 << n) if s not in K]
    nondeg = any(ref_up[s] > ref_lo[s] for s in unknown)
    tightens = any(ref_lo[s] > min_lo[s] or ref_up[s] < min_up[s] for s in unknown)
    res.nontrivial = bool(nondeg and tightens)
    res.label(f"n={n}", f"cls={cls}", "assembly=" + case.get("assembly", "reset"))
    if nondeg:
        res.label("nondegenerate-interval")
    if tightens:
        res.label("knowledge-tightens")
    return res


def _sample(case):
    g = case["game"]
    return {"n": g["n"], "cls": g["cls"], "how": g.get("how"), "v": g["v"] if g["n"] <= 4 else g["v"][:16] + ["..."],
            "K": case["K"][:32], "lp": case["lp"]}


def plan(tier: str) -> list[dict]:
    if tier == "quick":
        return ([{"max_n": 5, "lp": False, "examples": 800, "cost": 2} for _ in range(3)] + [{"max_n": 6, "lp": False, "examples": 200, "cost": 2}]
                + [{"max_n": 4, "lp": True, "examples": 150, "cost": 2}, {"max_n": 5, "lp": True, "examples": 80, "cost": 2}])
    return ([{"max_n": 6, "lp": False, "examples": 20000, "cost": 8} for _ in range(7)]
            + [{"max_n": 7, "lp": False, "examples": 1500, "cost": 8} for _ in range(3)]
            + [{"max_n": 5, "lp": True, "examples": 2500, "cost": 8} for _ in range(6)])


def run_shard(spec: dict, ctx: Ctx) -> None:
    ctx.run_given(cases(spec["max_n"], spec["lp"]), check_case, spec["examples"], sample_of=_sample)
