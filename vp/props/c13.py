"""C13  Built-in solvers pick valid actions by their rule and leave the environment untouched; expected-greedy search."""
from __future__ import annotations

import itertools

from hypothesis import strategies as st

from ..core import Ctx, Result, guarded
from ..games import sam_games, superadditive_games
from ..oracles import gap_tol, minimal_masks, popcount, ref_gap

ID = "C13"
LEVEL = "exploration"
SOLVER_NAMES = ("greedy", "greedy_worst", "largest", "random")
RULE = ("(A) Hypothesis: environment states reached by a drawn reveal prefix (n=4,5) and ALL states of n=3, each with step budgets none / last permitted move / some left / used up, followed by a drawn walk of further steps and unsteps during which the SAME solver objects are asked again (one reset window), hidden games from "
        "asymmetric sources (harness superadditive/SAM constructions, noisy factory, XOS, graph families) so that rewards differ "
        "between actions; each registered solver: public snapshot (table, steps_taken, state, reward, done, mask, hidden game) "
        "identical before/after next_step; action valid; greedy = lowest index among actions whose own-computed immediate reward "
        "(fresh object, reveal, compute, gap) is maximal; greedy_worst minimal; largest = lowest index among unknown coalitions of "
        "maximal size; random valid and reproducible for equal seed and state. (B) get_greedy_rewards over a cyclic list of sampled "
        "games, step limits 0..5 (the whole horizon at n=3), process counts {1,2,4}, rng None/seeded: chosen coalitions pairwise distinct; the t-th one attains the "
        "minimal mean gap among all one-coalition extensions of the prefix (own computation); row t equals own-computed gaps; mean "
        "curve non-increasing, >= exhaustive optimum (get_best_exploitability) and equal to it for 0 and 1 reveals; identical for "
        "all process counts. Non-trivial: a state with >= 2 valid actions whose rewards differ (for 'largest': unknown coalitions of "
        ">= 2 sizes); distinct = hash of the case.")
LEVEL_TEXT = ("Generated states and game samples with an own re-computation of every candidate action's reward; all n=3 states "
              "enumerated. The choice rule is checked at each generated state, not proved for all states.")
LEVEL_NOTE = ("Solver objects persist over a walk of states inside one reset window. Trusted: bounds of fresh objects (C01-C03, C08), gap functions (C05, C07). Reward ties are decided on values computed by "
              "the same gap function on a fresh object (bit-identical to what the solver observes when C08 holds).")
TECHNIQUE = "property-based testing: Hypothesis-generated environment states / game samples vs brute-force re-computation of the solver's choice rule"
ASSUMPTIONS = ["hidden games are of the class the computer assumes", "expected-greedy ties: any minimiser within 1e-9*scale (1e-6 with rng) is accepted"]


def _mk_env(cfg: dict):
    from incomplete_cooperative.coalitions import minimal_game_coalitions
    from incomplete_cooperative.icg_gym import ICG_Gym
    from .. import libgames, repo
    from .c09 import _gap_fn
    n = cfg["n"]
    specs = cfg["games"]
    counter = {"calls": 0}

    def gen():
        spec = specs[counter["calls"] % len(specs)]
        counter["calls"] += 1
        return libgames.spec_game(spec)

    inc = repo.new_game(n, cfg["computer"])
    env = ICG_Gym(inc, gen, minimal_game_coalitions(inc), _gap_fn(cfg["gap"]), done_after_n_actions=cfg.get("budget"))
    return env, counter


def _snapshot(env):
    import numpy as np
    from .. import repo
    return {"table": repo.table_bytes(env.incomplete_game), "steps": int(env.steps_taken), "state": np.asarray(env.state).tobytes(),
            "reward": float(env.reward), "done": bool(env.done), "mask": np.asarray(env.action_masks()).tobytes(),
            "hidden": np.asarray(env.full_game.get_values()).tobytes()}


def _own_rewards(cfg, v, K, explorable, valid):
    """Immediate reward of every valid action, computed on fresh objects with the library's gap function."""
    from .. import repo
    from .c09 import _gap_fn
    gf = _gap_fn(cfg["gap"])
    out = {}
    for a in valid:
        g = repo.new_game(cfg["n"], cfg["computer"])
        repo.set_knowledge(g, v, K | {explorable[a]})
        g.compute_bounds()
        out[a] = float(-gf(g))
    return out


@guarded
def check_case(case: dict) -> Result:
    if case["kind"] == "expected":
        return _check_expected(case)
    if case.get("all_prefixes"):
        # all states of n=3: every ordered reveal prefix that leaves something to reveal
        nexp = (1 << case["cfg"]["n"]) - case["cfg"]["n"] - 2
        total = Result()
        count = 0
        for r in range(0, nexp):
            for prefix in itertools.permutations(range(nexp), r):
                for budget in (None, r + 1, r + 2):
                    one = _check_state({**case, "prefix": list(prefix), "cfg": {**case["cfg"], "budget": budget},
                                        "walk": case.get("walk") or [1, 1, 0, 2, 1]})
                    count += 1
                    total.nontrivial = total.nontrivial or one.nontrivial
                    total.labels = one.labels
                    if one.failures:
                        total.failures = [f"{m} [budget {budget}]" for m in one.failures]
                        return total
        total.labels.append(f"all-states={count}")
        return total
    return _check_state(case)


def _check_state(case: dict) -> Result:
    """One reset window: the same solver objects (after_reset called once, as the Solver protocol prescribes) are asked at the
    state after the reveal prefix and then at every state of a drawn walk of further steps AND unsteps."""
    from incomplete_cooperative.run.model import ModelInstance
    from incomplete_cooperative.solvers import SOLVERS
    from .. import libgames
    res = Result()
    cfg = case["cfg"]
    n = cfg["n"]
    env, _ = _mk_env(cfg)
    v = libgames.spec_values(cfg["games"][1 % len(cfg["games"])])   # constructor draws game 0, its reset() draws game 1
    explorable = [s for s in range(1 << n) if s not in minimal_masks(n)]
    inst = ModelInstance(number_of_players=n, seed=case.get("seed", 1))
    solvers = {name: SOLVERS[name](inst) for name in case["solvers"]}
    for solver in solvers.values():
        solver.after_reset(env)
    revealed: list[int] = []
    for a in case["prefix"]:
        env.step(a)
        revealed.append(a)
    any_differ = False
    sizes_seen = False
    visited = 0
    walk = [None] + list(case.get("walk", []))
    for wi, w_op in enumerate(walk):
        if w_op is not None:
            valid_now = [i for i in range(len(explorable)) if i not in revealed]
            if w_op % 2 == 0 and len(valid_now) > 1:
                a = valid_now[(w_op // 2) % len(valid_now)]
                env.step(a)
                revealed.append(a)
            elif revealed:
                a = revealed.pop((w_op // 2) % len(revealed))
                env.unstep(a)
            else:
                continue
        K = minimal_masks(n) | {explorable[a] for a in revealed}
        valid = [i for i in range(len(explorable)) if explorable[i] not in K]
        if not valid:
            res.label("no-valid-action")
            continue
        visited += 1
        rewards = _own_rewards(cfg, v, K, explorable, valid)
        where = f"state {sorted(revealed)} (visit {wi} of one reset window)"
        for name, solver in solvers.items():
            before = _snapshot(env)
            action = solver.next_step(env)
            after = _snapshot(env)
            w = f"{name} at {where}"
            diff = [k for k in before if before[k] != after[k]]
            if diff:
                res.fail(f"env-modified :: {w}: next_step changed {diff}")
            if action not in valid:
                res.fail(f"invalid-action :: {w}: returned {action!r}, valid {valid}")
                continue
            action = int(action)
            if name in ("greedy", "greedy_worst"):
                best = (max if name == "greedy" else min)(rewards.values())
                want = min(a for a in valid if rewards[a] == best)
                if rewards[action] != best:
                    res.fail(f"{name}-not-optimal :: {w}: chose {action} with reward {rewards[action]!r}, {'max' if name == 'greedy' else 'min'} is {best!r} (rewards {rewards})")
                elif action != want:
                    res.fail(f"{name}-tie-not-lowest :: {w}: chose {action}, lowest index attaining {best!r} is {want}")
            elif name == "largest":
                big = max(popcount(explorable[a]) for a in valid)
                want = min(a for a in valid if popcount(explorable[a]) == big)
                if popcount(explorable[action]) != big:
                    res.fail(f"largest-not-largest :: {w}: chose coalition {explorable[action]} of size {popcount(explorable[action])}, largest unknown size {big}")
                elif action != want:
                    res.fail(f"largest-tie-not-lowest :: {w}: chose {action}, lowest index of size {big} is {want}")
            elif wi == 0:
                again = SOLVERS[name](ModelInstance(number_of_players=n, seed=case.get("seed", 1)))
                if again.next_step(env) != action:
                    res.fail(f"random-not-reproducible :: {w}: equal seed and state gave a different action")
        if res.failures:
            break
        if len(set(rewards.values())) > 1 and len(valid) >= 2:
            any_differ = True
        if len({popcount(explorable[a]) for a in valid}) >= 2:
            sizes_seen = True
    res.nontrivial = any_differ and (sizes_seen or "largest" not in case["solvers"] or n == 3)
    res.label(f"n={n}", f"comp={cfg['computer']}", f"gap={cfg['gap']}", "src=" + cfg["games"][0].get("how", "?").split("(")[0])
    b = cfg.get("budget")
    res.label("budget=" + ("none" if b is None else "last-move" if b == len(case["prefix"]) + 1 else "used-up" if b <= len(case["prefix"]) else "some-left"))
    res.label(f"states-visited={min(visited, 6)}")
    if any_differ:
        res.label("rewards-differ")
    return res


def _gaps_of(cfg, values_list, K_masks):
    """Own computation: gap of knowledge K on each sampled game (library bounds, independent gap oracle)."""
    from .. import repo
    out, tol = [], 0.0
    for v in values_list:
        g = repo.new_game(cfg["n"], cfg["computer"])
        repo.set_knowledge(g, v, K_masks)
        g.compute_bounds()
        _, lo, up = repo.table(g)
        out.append(ref_gap(cfg["gap"], lo, up, cfg["n"]))
        tol = max(tol, gap_tol(cfg["gap"], lo, up, cfg["n"]))
    return out, tol


def _check_expected(case: dict) -> Result:
    import random as pyrandom

    import numpy as np
    from incomplete_cooperative.run.best_states import get_best_exploitability
    from incomplete_cooperative.run.greedy import get_greedy_rewards
    from .. import libgames
    from .c09 import _gap_fn
    res = Result()
    cfg = case["cfg"]
    n, R, T = cfg["n"], case["repetitions"], case["max_steps"]
    assert R == len(cfg["games"])
    vals = [libgames.spec_values(s) for s in cfg["games"]]
    explorable = [s for s in range(1 << n) if s not in minimal_masks(n)]
    mins = minimal_masks(n)
    scale = max(max(abs(x) for x in v) for v in vals) + 1.0
    results = {}
    for p in case["procs"]:
        env, counter = _mk_env(cfg)
        start = counter["calls"]
        rng = pyrandom.Random(case["rng"]) if case["rng"] is not None else None
        expl, chosen = get_greedy_rewards(env, T, R, _gap_fn(cfg["gap"]), p, rng)
        order = [(start + j) % R for j in range(R)]        # game index used in column j
        results[p] = (np.array(expl), list(chosen), order)
    expl, chosen, order = results[case["procs"][0]]
    w = f"expected-greedy R={R} T={T}"
    if expl.shape != (T + 1, R):
        res.fail(f"shape :: {w}: {expl.shape}")
        return res
    if len(set(chosen)) != len(chosen):
        res.fail(f"repeated-coalition :: {w}: chosen {chosen}")
    if any(c not in explorable for c in chosen):
        res.fail(f"not-explorable :: {w}: chosen {chosen}")
    if len(chosen) != min(T, len(explorable)):
        res.fail(f"sequence-length :: {w}: {len(chosen)} coalitions chosen, expected {min(T, len(explorable))}")
    if res.failures:          # the sequence itself is malformed: the per-step oracle below presupposes distinct explorable coalitions
        res.label("expected-greedy", f"n={n}")
        return res
    col_vals = [vals[i] for i in order]
    tie_tol = 1e-6 if case["rng"] is not None else 1e-9 * scale
    means = []
    nontrivial = False
    for t in range(0, len(chosen) + 1):
        prefix = set(chosen[:t])
        own, tol = _gaps_of(cfg, col_vals, mins | prefix)
        for j in range(R):
            if abs(expl[t, j] - own[j]) > tol:
                res.fail(f"row-mismatch :: {w}: row {t} column {j} = {expl[t, j]!r}, own gap of prefix {chosen[:t]} on that game = {own[j]!r}")
                break
        means.append(float(np.mean(expl[t])))
        if t >= 1:
            # the t-th chosen coalition must be a minimiser among all extensions of the previous prefix
            prev = set(chosen[:t - 1])
            cand_means = {}
            for c in explorable:
                if c in prev:
                    continue
                g, tl = _gaps_of(cfg, col_vals, mins | prev | {c})
                cand_means[c] = sum(g) / R
            best = min(cand_means.values())
            if len(set(round(x, 9) for x in cand_means.values())) > 1:
                nontrivial = True
            if cand_means[chosen[t - 1]] > best + tie_tol + tol:
                res.fail(f"not-a-minimiser :: {w}: step {t} chose {chosen[t - 1]} with mean gap {cand_means[chosen[t - 1]]!r}, best extension has {best!r}")
            if means[t] > means[t - 1] + tol:
                res.fail(f"curve-increases :: {w}: mean gap {means[t - 1]!r} -> {means[t]!r} at step {t}")
    # rows after the sequence ended keep the last value (the loop in the library stops when max_steps reached)
    # process independence
    for p in case["procs"][1:]:
        e2, c2, o2 = results[p]
        # columns are a rotation of the same games: compare per game index
        a = {order[j]: expl[:, j].tolist() for j in range(R)}
        b = {o2[j]: e2[:, j].tolist() for j in range(R)}
        if c2 != chosen or a != b:
            res.fail(f"process-dependent :: {w}: processes={case['procs'][0]} and processes={p} disagree (chosen {chosen} vs {c2})")
    # against the exhaustive optimum on the same games
    if case.get("compare_best") and not res.failures:
        env, counter = _mk_env(cfg)
        best_expl, best_actions = get_best_exploitability(env, min(T, len(explorable)), R, _gap_fn(cfg["gap"]), processes=1)
        bm = [float(np.mean(best_expl[t])) for t in range(min(T, len(explorable)) + 1)]
        tol = 1e-9 * scale
        for t in range(len(bm)):
            if t < len(means) and means[t] < bm[t] - tol:
                res.fail(f"below-exhaustive-optimum :: {w}: greedy mean {means[t]!r} < optimum {bm[t]!r} at {t} reveals")
        for t in (0, 1):
            if t < len(bm) and t < len(means) and abs(means[t] - bm[t]) > tie_tol + tol:
                res.fail(f"differs-from-optimum-at-{t} :: {w}: greedy {means[t]!r} optimum {bm[t]!r}")
        res.label("compared-with-best-states")
    res.nontrivial = nontrivial
    res.label("expected-greedy", f"n={n}", f"procs={case['procs']}", f"rng={'seeded' if case['rng'] is not None else 'none'}")
    return res


# -- strategies -----------------------------------------------------------------------------------------


ASYM = ["noisy_factory", "noisy_factory_square", "noisy_factory_fixed", "xos", "xos3", "oxs", "xs", "graph_beta_2_3",
        "graph_random", "factory", "factory_cheerleader", "covg_fn_generator"]


@st.composite
def game_specs(draw, n: int, k: int, sam_ok: bool = True):
    from .. import libgames
    src = draw(st.sampled_from(["sa", "sam", "lib", "lib"] if sam_ok else ["sa", "lib"]))
    if src == "sa":
        return [dict(kind="table", n=n, v=draw(superadditive_games(n, n))["v"], how="harness-sa") for _ in range(k)], "sa"
    if src == "sam":
        return [dict(kind="table", n=n, v=draw(sam_games(n, n))["v"], how="harness-sam") for _ in range(k)], "sam"
    name = draw(st.sampled_from(ASYM))
    seed = draw(st.integers(0, 2**31))
    return [libgames.lib_spec(name, n, seed + j) for j in range(k)], ("sam" if name in libgames.SAM_FAMILIES else "sa")


@st.composite
def state_cases(draw, n_min: int, n_max: int):
    n = draw(st.integers(n_min, n_max))
    games, cls = draw(game_specs(n, 1))
    comp = draw(st.sampled_from(["superadditive", "superadditive_cached"] + (["sam_apx_1", "sam_apx_10"] if cls == "sam" else [])))
    nexp = (1 << n) - n - 2
    prefix = draw(st.lists(st.integers(0, nexp - 1), max_size=nexp - 1, unique=True))
    # step budgets: none, exactly one move left (the last permitted move), a few left, already used up
    budget = draw(st.sampled_from([None, None, len(prefix) + 1, len(prefix) + 1, len(prefix) + 2, len(prefix) + 3, max(1, len(prefix))]))
    return {"kind": "state", "cfg": {"n": n, "games": games, "computer": comp, "gap": draw(st.sampled_from(["exploitability", "l1_norm", "l2_norm", "linf_norm"])), "budget": budget},
            "prefix": prefix, "solvers": list(SOLVER_NAMES), "seed": draw(st.integers(0, 10**6)),
            "walk": draw(st.lists(st.integers(0, 63), max_size=5))}


@st.composite
def all_states_n3(draw):
    base = draw(state_cases(3, 3))
    return base


@st.composite
def expected_cases(draw, n_max: int, procs):
    n = draw(st.integers(3, n_max))
    R = draw(st.integers(1, 3))
    games, cls = draw(game_specs(n, R, sam_ok=False))
    nexp = (1 << n) - n - 2
    # the whole horizon at n = 3 (the last reveal is where l-inf finally drops after a plateau), short ones otherwise
    T = draw(st.sampled_from(([nexp, nexp] if n == 3 else []) + [t for t in (3, 4, 2, 5, 1, 0) if t <= nexp]))
    return {"kind": "expected", "cfg": {"n": n, "games": games, "computer": draw(st.sampled_from(["superadditive", "superadditive_cached"])),
                                         "gap": draw(st.sampled_from(["linf_norm", "exploitability", "linf_norm", "l1_norm"])), "budget": None},
            "repetitions": R, "max_steps": T, "procs": procs, "rng": draw(st.sampled_from([None, None, 5])),
            "compare_best": (n == 3 or T <= 2) and T >= 1}     # flat steps (no single reveal lowers the mean gap) are typical for linf_norm


def _sample(case):
    c = dict(case)
    cfg = dict(case["cfg"])
    cfg["games"] = [{k: (v if k != "v" or len(v) <= 16 else v[:16] + ["..."]) for k, v in g.items()} for g in cfg["games"][:2]]
    c["cfg"] = cfg
    return c


def plan(tier: str) -> list[dict]:
    if tier == "quick":
        return ([{"mode": "states", "n_min": 4, "n_max": 5, "examples": 60, "cost": 4} for _ in range(5)]
                + [{"mode": "n3", "examples": 8, "cost": 3}]
                + [{"mode": "expected", "n_max": 4, "examples": 6, "procs": [1, 2], "cost": 6} for _ in range(5)])
    return ([{"mode": "states", "n_min": 4, "n_max": 5, "examples": 500, "cost": 10} for _ in range(8)]
            + [{"mode": "n3", "examples": 60, "cost": 6} for _ in range(2)]
            + [{"mode": "expected", "n_max": 4, "examples": 40, "procs": [1, 2, 4], "cost": 12} for _ in range(6)])


def run_shard(spec: dict, ctx: Ctx) -> None:
    if spec["mode"] == "states":
        ctx.run_given(state_cases(spec["n_min"], spec["n_max"]), check_case, spec["examples"], sample_of=_sample)
    elif spec["mode"] == "n3":
        strat = state_cases(3, 3).map(lambda c: {**c, "all_prefixes": True, "prefix": []})
        ctx.run_given(strat, check_case, spec["examples"], sample_of=_sample)
        ctx.extra["exhaustive_parts"] = ["all reachable states (every ordered reveal prefix) of the n=3 environment per drawn game, all four solvers"]
    else:
        ctx.run_given(expected_cases(spec["n_max"], spec["procs"]), check_case, spec["examples"], shrink=False, sample_of=_sample)
