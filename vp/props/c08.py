"""C08  Bounds depend only on current knowledge: idempotent, order-free, undoable.

Machine A: one long-lived game object per registered computer is driven through set / reveal / un-reveal / unset /
bulk reset / compute / POISON (arbitrary numbers written into the bounds of all unknown coalitions through the
public bulk setters - any stale state an earlier computation could have left).  After every compute the whole
table must be bit-identical to that of a fresh object given the same knowledge and computed once.
Machine B: ICG_Gym step / unstep: unstep restores state, reward, done, counter, mask and table exactly.
"""
from __future__ import annotations

import random

from hypothesis import strategies as st
from hypothesis.stateful import RuleBasedStateMachine, initialize, invariant, precondition, rule

from ..core import Ctx, Result, guarded
from ..games import arbitrary_games, knowledge_sets, sam_games, superadditive_games
from ..oracles import minimal_masks

ID = "C08"
LEVEL = "exploration"
COMPUTERS = ("superadditive", "superadditive_cached", "sam_apx_1", "sam_apx_10", "sam_apx_100")
RULE = ("Hypothesis RuleBasedStateMachine A: values of ANY class (arbitrary / superadditive / SAM; int, dyadic, float), n=3..6, "
        "one long-lived object per registered computer (superadditive, superadditive_cached, sam_apx_1/10/100, sam_apx_1000 "
        "for n<=4 in thorough); rules reveal, unreveal, set, unset, set_many (bulk set_values of several unknown coalitions), overwrite (new value for a known coalition), reset-to-K', compute, compute-twice, poison (seeded "
        "arbitrary bounds on all unknown rows via set_lower_bounds/set_upper_bounds), probe-undo (reveal+compute, "
        "unreveal+compute == snapshot). Oracle: table bit-identical to a fresh object with the same knowledge computed once. "
        "Machine B: ICG_Gym over a fixed hidden game: step(a); unstep(a) restores state/reward/done/steps/mask/table exactly; "
        "all states for n=3 enumerated. Non-trivial: a poison or un-reveal precedes the compared compute and some coalition "
        "is unknown at comparison time; distinct = hash of (game, K0, operations).")
LEVEL_TEXT = ("Model-based stateful search: the reference is the same function on a clean history, so any dependence on history or "
              "on stale table content is visible as a byte difference. Poisoning generalises 'whatever an earlier computation left'. "
              "Explores histories; exhaustive only for the n=3 environment state graph.")
LEVEL_NOTE = ("Trusted: numpy byte comparison; the public bulk setters only touch unknown rows (itself checked in C17). "
              "sam_apx_1000 only at n<=4 (cost).")
TECHNIQUE = "property-based testing: Hypothesis rule-based state machine with fault-style state poisoning vs fresh-object reference (history independence)"
ASSUMPTIONS = ["knowledge always contains the minimal information (all computers assert parts of it)"]


def poison_values(n: int, seed: int):
    rng = random.Random(seed)
    mode = rng.choice(["ints", "floats", "huge", "inverted"])
    size = 1 << n
    if mode == "ints":
        lo = [float(rng.randint(-50, 50)) for _ in range(size)]
        up = [float(rng.randint(-50, 50)) for _ in range(size)]
    elif mode == "floats":
        lo = [rng.uniform(-1e3, 1e3) for _ in range(size)]
        up = [rng.uniform(-1e3, 1e3) for _ in range(size)]
    elif mode == "huge":
        lo = [rng.choice([1e300, -1e300, 1e9]) for _ in range(size)]
        up = [rng.choice([1e300, -1e300, -1e9]) for _ in range(size)]
    else:
        lo = [float(rng.randint(100, 200)) for _ in range(size)]
        up = [float(rng.randint(-200, -100)) for _ in range(size)]
    return lo, up


class Sim:
    def __init__(self, game: dict, k0, computers):
        from .. import repo
        self.repo = repo
        self.n, self.v, self.cls = game["n"], list(game["v"]), game["cls"]
        self.K = set(k0)
        self.min = minimal_masks(self.n)
        self.computers = list(computers)
        self.objs = {c: repo.new_game(self.n, c) for c in self.computers}
        for g in self.objs.values():
            repo.set_knowledge(g, self.v, self.K)
        self.clean = False
        self.stale_before = False     # a poison / unreveal happened since the last comparison
        self.nontrivial = False

    def apply(self, op: list, res: Result) -> None:
        import numpy as np
        repo = self.repo
        kind = op[0]
        if kind in ("compute", "compute2"):
            for name, g in self.objs.items():
                g.compute_bounds()
                if kind == "compute2":
                    snap = repo.table_bytes(g)
                    g.compute_bounds()
                    if repo.table_bytes(g) != snap:
                        res.fail(f"not-idempotent :: {name}: second compute_bounds() changed the table")
            self._compare(res, "after compute")
            return
        if kind == "probe_undo":
            s = op[1]
            for name, g in self.objs.items():
                g.compute_bounds()
                snap = repo.table_bytes(g)
                g.reveal_value(self.v[s], repo.coal(s))
                g.compute_bounds()
                g.unreveal_value(repo.coal(s))
                g.compute_bounds()
                if repo.table_bytes(g) != snap:
                    res.fail(f"undo-not-exact :: {name}: reveal {s} + compute, unreveal + compute does not restore the table")
            self.stale_before = True
            self._compare(res, "after probe_undo")
            return
        self.clean = False
        if kind == "fork":
            self.objs = {name: g.copy() for name, g in self.objs.items()}     # continue on copies
            return
        for g in self.objs.values():
            if kind == "reveal":
                g.reveal_value(self.v[op[1]], repo.coal(op[1]))
            elif kind == "set":
                g.set_value(self.v[op[1]], repo.coal(op[1]))
            elif kind == "set_many":
                g.set_values(np.array([self.v[m] for m in op[1]], dtype=float), repo.coals(op[1]))   # bulk set, no reset
            elif kind == "overwrite":
                g.set_value(op[2], repo.coal(op[1]))       # a different value for an already known coalition
            elif kind == "unreveal":
                g.unreveal_value(repo.coal(op[1]))
            elif kind == "unset":
                g.unset_value(repo.coal(op[1]))
            elif kind == "reset":
                repo.set_knowledge(g, self.v, op[1])
            elif kind == "poison":
                lo, up = poison_values(self.n, op[1])
                g.set_lower_bounds(np.array(lo))
                g.set_upper_bounds(np.array(up))
            else:
                raise ValueError(op)
        if kind == "overwrite":
            self.v[op[1]] = float(op[2])
            self.stale_before = True
        if kind == "set_many":
            self.K.update(op[1])
        if kind in ("reveal", "set"):
            self.K.add(op[1])
        elif kind in ("unreveal", "unset"):
            self.K.discard(op[1])
            self.stale_before = True
        elif kind == "reset":
            self.K = set(op[1])
        elif kind == "poison":
            self.stale_before = True

    def _compare(self, res: Result, where: str) -> None:
        repo = self.repo
        for name, g in self.objs.items():
            fresh = repo.new_game(self.n, name)
            repo.set_knowledge(fresh, self.v, self.K)
            fresh.compute_bounds()
            if repo.table_bytes(g) != repo.table_bytes(fresh):
                kg, lg, ug = repo.table(g)
                kf, lf, uf = repo.table(fresh)
                bad = [s for s in range(1 << self.n) if (kg[s], lg[s], ug[s]) != (kf[s], lf[s], uf[s])][:3]
                res.fail(f"history-dependent :: {name} {where}: coalitions {bad} long-lived {[(lg[s], ug[s]) for s in bad]} fresh {[(lf[s], uf[s]) for s in bad]} K={sorted(self.K)[:20]}")
        if self.stale_before and len(self.K) < (1 << self.n):
            self.nontrivial = True
        self.stale_before = False
        self.clean = True


@guarded
def check_case(case: dict) -> Result:
    if case.get("kind") == "env":
        return _check_env(case)
    res = Result()
    sim = Sim(case["game"], case["k0"], case["computers"])
    for i, op in enumerate(case["ops"]):
        sim.apply(op, res)
        if res.failures:
            res.failures = [f"{m} (at op {i})" for m in res.failures]
            break
    res.nontrivial = sim.nontrivial
    res.label(f"n={sim.n}", f"cls={sim.cls}", "how=" + case["game"].get("how", "?").split("(")[0])
    return res


# -- machine B: environment -------------------------------------------------------------------------------


def _env(game: dict, comp: str, gap: str, budget):
    from incomplete_cooperative.coalitions import minimal_game_coalitions
    from incomplete_cooperative.exploitability import compute_exploitability
    from incomplete_cooperative.icg_gym import ICG_Gym
    from incomplete_cooperative.norms import l1_norm, l2_norm, linf_norm
    from .. import repo
    gf = {"exploitability": compute_exploitability, "l1_norm": l1_norm, "l2_norm": l2_norm, "linf_norm": linf_norm}[gap]
    n, v = game["n"], game["v"]
    inc = repo.new_game(n, comp)
    return ICG_Gym(inc, lambda: repo.full_game(n, v), minimal_game_coalitions(inc), gf, done_after_n_actions=budget)


def _env_snapshot(env):
    import numpy as np
    from .. import repo
    return (np.asarray(env.state).tobytes(), float(env.reward), bool(env.done), int(env.steps_taken),
            np.asarray(env.action_masks()).tobytes(), repo.table_bytes(env.incomplete_game))


def _check_env(case: dict) -> Result:
    res = Result()
    game = case["game"]
    env = _env(game, case["computer"], case["gap"], case.get("budget"))
    nact = len(env.explorable_coalitions)
    probes = 0

    def probe_all(where: str):
        nonlocal probes
        snap = _env_snapshot(env)
        for a in range(nact):
            if not env.action_masks()[a]:
                continue
            env.step(a)
            out = env.unstep(a)
            probes += 1
            after = _env_snapshot(env)
            if after != snap:
                names = ["state", "reward", "done", "steps_taken", "action_masks", "table"]
                diff = [nm for nm, x, y in zip(names, snap, after) if x != y]
                res.fail(f"unstep-not-exact :: {where}: step({a}); unstep({a}) changed {diff}")
                return
            import numpy as np
            if np.asarray(out[0]).tobytes() != snap[0] or float(out[1]) != snap[1] or bool(out[2]) != snap[2]:
                res.fail(f"unstep-return-mismatch :: {where}: values returned by unstep({a}) differ from the restored state")
                return

    if case.get("exhaustive"):
        def rec(path):
            probe_all(f"after {path}")
            if res.failures:
                return
            for a in range(nact):
                if env.action_masks()[a] and (not path or a > -1) and a not in path:
                    env.step(a)
                    rec(path + [a])
                    env.unstep(a)
                    if res.failures:
                        return
        rec([])
    else:
        probe_all("initial state")
        for a in case["actions"]:
            if res.failures:
                break
            if env.action_masks()[a]:
                env.step(a)
                probe_all(f"after step {a}")
        # random walk of steps and unsteps in ANY order (not only last-in-first-out): the table must always be the one a
        # fresh object computes from the same knowledge
        from .. import libgames, repo
        n = game["n"]
        v = game["v"]
        explorable = [c.id for c in env.explorable_coalitions]
        for j, w in enumerate(case.get("walk", [])):
            if res.failures:
                break
            mask = [bool(x) for x in env.action_masks()]
            valid = [i for i in range(nact) if mask[i]]
            revealed = [i for i in range(nact) if not mask[i]]
            if w % 2 == 0 and valid:
                env.step(valid[(w // 2) % len(valid)])
            elif revealed:
                env.unstep(revealed[(w // 2) % len(revealed)])
            else:
                continue
            known = {s for s in range(1 << n) if env.incomplete_game.is_value_known(repo.coal(s))}
            fresh = repo.new_game(n, case["computer"])
            repo.set_knowledge(fresh, v, known)
            fresh.compute_bounds()
            probes += 1
            if repo.table_bytes(fresh) != repo.table_bytes(env.incomplete_game):
                res.fail(f"env-history-dependent :: walk op {j}: table after step/unstep walk differs from a fresh object with the same knowledge {sorted(known)}")
    res.nontrivial = probes >= 2
    res.label("env", f"n={game['n']}", f"comp={case['computer']}", f"gap={case['gap']}")
    res.labels.append(f"probes={min(probes, 50)}")
    return res


# -- strategies / machines -----------------------------------------------------------------------------------


@st.composite
def any_class_game(draw, max_n: int):
    kind = draw(st.sampled_from(["arbitrary", "arbitrary", "superadditive", "sam"]))
    if kind == "arbitrary":
        return draw(arbitrary_games(3, max_n))
    if kind == "superadditive":
        return draw(superadditive_games(3, max_n))
    return draw(sam_games(3, max_n))


def make_machine(max_n: int, with_1000: bool):
    class Machine(RuleBasedStateMachine):
        ctx: Ctx = None  # type: ignore[assignment]

        def __init__(self):
            super().__init__()
            self.sim = None
            self.case = None
            self.res = Result()

        @initialize(game=any_class_game(max_n), data=st.data())
        def init(self, game, data):
            n = game["n"]
            comps = list(COMPUTERS)
            if n >= 6:
                comps = [c for c in comps if c != "sam_apx_100"]
            if with_1000 and n <= 4:
                comps.append("sam_apx_1000")
            k0 = data.draw(knowledge_sets(n))
            self.case = {"game": game, "k0": k0, "ops": [], "computers": comps}
            self.sim = Sim(game, k0, comps)

        def _do(self, op):
            self.case["ops"].append(op)
            self.ctx.current_case = self.case
            self.sim.apply(op, self.res)

        def _unknown(self):
            return [s for s in range(1 << self.sim.n) if s not in self.sim.K]

        @precondition(lambda self: self.sim is not None and self._unknown())
        @rule(i=st.integers(0, 2**20), how=st.sampled_from(["reveal", "set"]))
        def reveal(self, i, how):
            u = self._unknown()
            self._do([how, u[i % len(u)]])

        @precondition(lambda self: self.sim is not None and self.sim.K - self.sim.min)
        @rule(i=st.integers(0, 2**20), how=st.sampled_from(["unreveal", "unset"]))
        def unreveal(self, i, how):
            r = sorted(self.sim.K - self.sim.min)
            self._do([how, r[i % len(r)]])

        @precondition(lambda self: self.sim is not None)
        @rule(data=st.data())
        def reset(self, data):
            self._do(["reset", data.draw(knowledge_sets(self.sim.n))])

        @precondition(lambda self: self.sim is not None and self._unknown())
        @rule(picks=st.lists(st.integers(0, 2**20), min_size=1, max_size=4))
        def set_many(self, picks):
            u = self._unknown()
            self._do(["set_many", sorted({u[i % len(u)] for i in picks})])

        @precondition(lambda self: self.sim is not None)
        @rule(i=st.integers(0, 2**20), delta=st.sampled_from([-7.0, -1.0, -0.5, 0.25, 1.0, 3.0, 16.0]))
        def overwrite(self, i, delta):
            k = sorted(self.sim.K - {0})
            m = k[i % len(k)]
            self._do(["overwrite", m, self.sim.v[m] + delta])

        @precondition(lambda self: self.sim is not None)
        @rule()
        def fork(self):
            self._do(["fork"])

        @precondition(lambda self: self.sim is not None)
        @rule(seed=st.integers(0, 2**31))
        def poison(self, seed):
            self._do(["poison", seed])

        @precondition(lambda self: self.sim is not None)
        @rule(twice=st.booleans())
        def compute(self, twice):
            self._do(["compute2" if twice else "compute"])

        @precondition(lambda self: self.sim is not None and self._unknown())
        @rule(i=st.integers(0, 2**20))
        def probe_undo(self, i):
            u = self._unknown()
            self._do(["probe_undo", u[i % len(u)]])

        @invariant()
        def holds(self):
            if self.res.failures:
                self.res.nontrivial = self.sim.nontrivial
                self.ctx.judge(self.case, self.res, _sample(self.case))

        def teardown(self):
            if self.sim is None:
                return
            res = Result()
            res.nontrivial = self.sim.nontrivial
            res.label(f"n={self.sim.n}", f"cls={self.sim.cls}", "how=" + self.case["game"].get("how", "?").split("(")[0])
            self.ctx.record(self.case, res, _sample(self.case))

    return Machine


@st.composite
def env_cases(draw, n_min: int, n_max: int):
    kind = draw(st.sampled_from(["sam", "sa", "sa", "arbitrary", "sa-mutated", "sa-mutated"]))
    sam = kind == "sam"
    if kind == "arbitrary":
        # the property is about determinism, not soundness: hidden games outside the assumed class are in scope
        game = draw(arbitrary_games(n_min, n_max, classes=("int",)))
        game["v"] = [float(abs(x) % 7) if bin(s).count("1") == 1 else x for s, x in enumerate(game["v"])]
    elif kind == "sa-mutated":
        # almost in the class: a superadditive integer game (many intervals get pinned) with ONE value pushed below its best split
        game = draw(superadditive_games(n_min, n_max, classes=("int",)))
        cands = [s for s in range(1 << game["n"]) if bin(s).count("1") >= 2 and s != (1 << game["n"]) - 1]
        s_ = draw(st.sampled_from(cands))
        game = dict(game, v=list(game["v"]), how="sa-mutated")
        game["v"][s_] = game["v"][s_] - draw(st.sampled_from([1.0, 2.0, 5.0]))
    else:
        game = draw(sam_games(n_min, n_max)) if sam else draw(superadditive_games(n_min, n_max, classes=("int", "dyadic", "float")))
    n = game["n"]
    comp = draw(st.sampled_from(["sam_apx_1", "sam_apx_10", "superadditive_cached"] if sam else ["superadditive", "superadditive_cached"]))
    nact = (1 << n) - n - 2
    actions = draw(st.lists(st.integers(0, nact - 1), min_size=0, max_size=min(nact, 6), unique=True))
    if kind == "sa-mutated":
        # the value that contradicts superadditivity gets revealed first (it is what makes knowledge 'inconsistent')
        explorable = [s for s in range(1 << n) if bin(s).count("1") not in (0, 1, n)]
        first = explorable.index(s_)
        actions = [first] + [a for a in actions if a != first][:3]
    return {"kind": "env", "game": game, "computer": comp, "gap": draw(st.sampled_from(["exploitability", "l1_norm", "l2_norm", "linf_norm"])),
            "budget": draw(st.sampled_from([None, None, 1, 3])), "actions": actions,
            "walk": draw(st.lists(st.integers(0, 63), max_size=12)) if kind != "sa-mutated" else [2 * x for x in draw(st.lists(st.integers(0, 31), min_size=4, max_size=12))]}


def _sample(case):
    g = case["game"]
    c = {k: v for k, v in case.items() if k != "game"}
    c["game"] = {"n": g["n"], "cls": g["cls"], "how": g.get("how"), "v": g["v"] if g["n"] <= 4 else g["v"][:16] + ["..."]}
    if "ops" in c:
        c["ops"] = [op if op[0] != "reset" else ["reset", op[1][:16]] for op in c["ops"][:16]]
        c["k0"] = c["k0"][:24]
    return c


def plan(tier: str) -> list[dict]:
    if tier == "quick":
        return ([{"mode": "machine", "max_n": 5, "examples": 70, "steps": 25, "cost": 4} for _ in range(6)]
                + [{"mode": "env", "n_min": 4, "n_max": 5, "examples": 170, "cost": 3} for _ in range(4)]
                + [{"mode": "env3", "examples": 30, "cost": 2}])
    return ([{"mode": "machine", "max_n": 5, "examples": 90, "steps": 40, "with_1000": True, "cost": 10} for _ in range(5)]
            + [{"mode": "machine", "max_n": 5, "examples": 250, "steps": 50, "cost": 8} for _ in range(5)]
            + [{"mode": "machine", "max_n": 6, "examples": 60, "steps": 40, "cost": 10} for _ in range(2)]
            + [{"mode": "env", "n_min": 4, "n_max": 5, "examples": 600, "cost": 8} for _ in range(3)]
            + [{"mode": "env3", "examples": 150, "cost": 6}])


def run_shard(spec: dict, ctx: Ctx) -> None:
    if spec["mode"] == "machine":
        ctx.run_machine(make_machine(spec["max_n"], spec.get("with_1000", False)), spec["examples"], spec["steps"])
    elif spec["mode"] == "env":
        ctx.run_given(env_cases(spec["n_min"], spec["n_max"]), check_case, spec["examples"], sample_of=_sample)
    else:
        strat = env_cases(3, 3).map(lambda c: {**c, "exhaustive": True, "actions": []})
        ctx.run_given(strat, check_case, spec["examples"], sample_of=_sample)
        ctx.extra["exhaustive_parts"] = ["all action sequences (all reachable states) of the n=3 environment per drawn game"]
