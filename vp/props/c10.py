"""C10  Every offered game generator runs and yields a game of its assumed class."""
from __future__ import annotations

from hypothesis import strategies as st

from ..core import Ctx, Result, guarded
from ..oracles import is_monotone_nonincreasing, is_sa, sa_violations

ID = "C10"
LEVEL = "exploration"
RULE = ("Enumeration over every key of the generator registry (71 runnable names; 'convex' needs the absent pyfmtools) x every "
        "player count in the tier's range, generation (Hypothesis) over seeds: GENERATORS[name](n, default_rng(seed)). Oracle: "
        "returns without exception; number_of_players == n; 2^n float64 finite values; v(empty) == 0; superadditive by the textbook "
        "definition (exact for integer-valued results, 1e-9*scale slack otherwise - independent of the library's predicate); "
        "additionally monotone non-increasing for the XOS / XS / OXS / K-budget / coverage families; two identically seeded calls (with "
        "unrelated calls for other player counts in between, and compared with a pristine forked process that never generated anything) return identical arrays except for the documented exceptions (graph-weight-distribution family, round-robin factory). "
        "One shard reaches the generators through ModelInstance (what --game-generator / --seed build): two identically seeded instances and the direct registry call give the same game sequence (seeds 0, 1, 2^32-1, 2^32 and drawn). Non-trivial: a game with >= 3 distinct values; distinct = (name, n, seed).")
LEVEL_TEXT = ("The registry and the player-count range are enumerated completely, seeds are generated; class membership is decided by "
              "textbook predicates in exact arithmetic. A for-all over seeds is explored, not proved.")
LEVEL_NOTE = "Trusted: vp/oracles.py predicates; the pristine-process helper (os.fork before any generator call). n in 3..6 quick (7, 8 thorough; oxs / coverage are exponential in n and capped at 6 / 7)."
TECHNIQUE = "property-based testing: registry x n enumeration with Hypothesis-generated seeds vs exact class predicates and a determinism (same-seed) relation"
ASSUMPTIONS = ["'convex' is not exercised (external dependency absent)", "float-valued families: superadditivity/monotonicity judged with 1e-9*scale slack"]


def max_n_for(name: str, tier: str) -> int:
    if name == "oxs":
        return 5 if tier == "quick" else 6
    if name == "covg_fn_generator":
        return 5 if tier == "quick" else 6
    return 6 if tier == "quick" else 8


class Pristine:
    """A forked helper process that has imported the generators but never called one; every query is answered by a
    grandchild forked from that pristine state, so the answer is what a fresh interpreter would produce."""

    def __init__(self):
        import os
        from incomplete_cooperative.generators import GENERATORS  # noqa: F401 - imported before the fork
        from .. import libgames  # noqa: F401
        self.req_r, self.req_w = os.pipe()
        self.res_r, self.res_w = os.pipe()
        self.pid = os.fork()
        if self.pid == 0:
            os.close(self.req_w)
            os.close(self.res_r)
            self._serve()
            os._exit(0)
        os.close(self.req_r)
        os.close(self.res_w)
        self.rf = os.fdopen(self.res_r, "r")
        self.wf = os.fdopen(self.req_w, "w")

    def _serve(self):
        import json
        import os
        rf = os.fdopen(self.req_r, "r")
        for line in rf:
            name, n, seed = json.loads(line)
            pid = os.fork()
            if pid == 0:
                out = "error"
                try:
                    out = _values_hash(name, n, seed)
                except BaseException as exc:  # noqa: BLE001
                    out = "error:" + type(exc).__name__
                os.write(self.res_w, (out + "\n").encode())
                os._exit(0)
            os.waitpid(pid, 0)

    def query(self, name, n, seed) -> str:
        import json
        self.wf.write(json.dumps([name, n, seed]) + "\n")
        self.wf.flush()
        return self.rf.readline().strip()

    def close(self):
        import os
        try:
            self.wf.close()
            os.waitpid(self.pid, 0)
            self.rf.close()
        except Exception:  # noqa: BLE001
            pass


def _values_hash(name, n, seed) -> str:
    import hashlib

    import numpy as np
    from incomplete_cooperative.generators import GENERATORS
    from .. import libgames
    libgames.reseed_module_state(seed)
    g = GENERATORS[name](n, np.random.default_rng(seed))
    return hashlib.blake2b(np.asarray(g.get_values(), dtype=float).tobytes(), digest_size=8).hexdigest()


PRISTINE: Pristine | None = None


def _check_model(case: dict) -> Result:
    """'Selectable on the command line': the same generator reached through ModelInstance (what --game-generator / --seed build).
    Two identically seeded instances hand out identical game sequences, equal to GENERATORS[name](n, default_rng(seed))."""
    import numpy as np
    from incomplete_cooperative.generators import GENERATORS
    from incomplete_cooperative.run.model import ModelInstance
    from .. import libgames
    res = Result()
    name, n, seed = case["name"], case["n"], case["seed"]
    w = f"{name} n={n} seed={seed} via ModelInstance"
    seqs = []
    for _ in range(2):
        libgames.reseed_module_state(seed)
        inst = ModelInstance(number_of_players=n, game_generator=name, seed=seed)
        seqs.append([np.asarray(inst.game_generator_fn().get_values(), dtype=float) for _ in range(case["draws"])])
    libgames.reseed_module_state(seed)
    rng = np.random.default_rng(seed)
    direct = [np.asarray(GENERATORS[name](n, rng).get_values(), dtype=float) for _ in range(case["draws"])]
    if libgames.ignores_seed(name):
        res.label("documented-seed-exception")
    else:
        if not all(np.array_equal(a, b) for a, b in zip(seqs[0], seqs[1])):
            res.fail(f"not-deterministic :: {w}: two identically seeded ModelInstance objects draw different games")
        elif not all(np.array_equal(a, b) for a, b in zip(seqs[0], direct)):
            res.fail(f"seed-not-honoured :: {w}: games differ from GENERATORS[name](n, default_rng(seed))")
    res.nontrivial = len({float(x) for x in seqs[0][0]}) >= 3
    res.label("via-ModelInstance", f"n={n}", "seed=0" if seed == 0 else "seed!=0")
    return res


@guarded
def check_case(case: dict) -> Result:
    if case.get("kind") == "model":
        return _check_model(case)
    import numpy as np
    from incomplete_cooperative.generators import GENERATORS
    from .. import libgames
    res = Result()
    name, n, seed = case["name"], case["n"], case["seed"]
    libgames.reseed_module_state(seed)
    game = GENERATORS[name](n, np.random.default_rng(seed))
    w = f"{name} n={n} seed={seed}"
    if game.number_of_players != n:
        res.fail(f"number_of_players :: {w}: {game.number_of_players}")
    vals = np.asarray(game.get_values())
    if vals.shape != (1 << n,):
        res.fail(f"shape :: {w}: {vals.shape}")
        return res
    if vals.dtype != np.float64:
        res.fail(f"dtype :: {w}: {vals.dtype}")
    if not np.all(np.isfinite(vals)):
        res.fail(f"non-finite :: {w}")
        return res
    v = [float(x) for x in vals]
    if v[0] != 0.0:
        res.fail(f"empty-coalition :: {w}: v(empty) = {v[0]!r}")
    integral = all(x == int(x) for x in v)
    scale = max([abs(x) for x in v] + [1.0])
    tol = 0.0 if integral else 1e-9 * scale
    if not is_sa(v, n, tol):
        a, b = sa_violations(v, n, tol)[0]
        res.fail(f"not-superadditive :: {w}: v({a})+v({b}) = {v[a] + v[b]!r} > v({a | b}) = {v[a | b]!r}")
    if name in libgames.SAM_FAMILIES and not is_monotone_nonincreasing(v, n, tol):
        res.fail(f"not-monotone-nonincreasing :: {w}")
    # single-coalition getter agrees with the bulk getter (graph games compute values on demand)
    from .. import repo
    for s in (0, 1, (1 << n) - 1, (1 << n) // 2 + 1):
        if float(game.get_value(repo.coal(s))) != v[s]:
            res.fail(f"get_value!=get_values :: {w}: coalition {s}")
    # determinism: the identically seeded second call comes after unrelated calls with other player counts (anything
    # memoised per process must not leak between calls) and with different module-level state
    libgames.reseed_module_state(seed + 12345)
    for other_n in (n + 2, n + 1, n - 1):
        if 3 <= other_n <= max_n_for(name, "quick") + 1:
            try:
                GENERATORS[name](other_n, np.random.default_rng(seed + other_n))
            except Exception:  # noqa: BLE001 - judged when that (name, n) is the case under test
                pass
    again = GENERATORS[name](n, np.random.default_rng(seed))
    same = np.array_equal(np.asarray(again.get_values()), vals)
    if libgames.ignores_seed(name):
        res.label("documented-seed-exception")
    elif not same:
        res.fail(f"not-deterministic :: {w}: two identically seeded calls (with calls for other player counts in between) returned different games")
    elif PRISTINE is not None:
        import hashlib
        mine = hashlib.blake2b(vals.astype(float).tobytes(), digest_size=8).hexdigest()
        fresh = PRISTINE.query(name, n, seed)
        res.label("compared-with-fresh-process")
        if fresh != mine:
            res.fail(f"not-deterministic :: {w}: the game differs from the one an identically seeded call returns in a fresh process "
                     f"(the result depends on what the process generated before)")
    res.nontrivial = len(set(v)) >= 3
    res.label(f"n={n}", "integral" if integral else "float-valued")
    return res


def plan(tier: str) -> list[dict]:
    from .. import libgames
    names = libgames.names()
    shards = 4 if tier == "quick" else 16
    seeds = 6 if tier == "quick" else 60
    out = []
    for k in range(shards):
        out.append({"names": names[k::shards], "seeds": seeds, "cost": 3})
    out.append({"mode": "model", "examples": 60 if tier == "quick" else 1500, "cost": 3})
    return out


def run_shard(spec: dict, ctx: Ctx) -> None:
    global PRISTINE
    tier = ctx.tier
    visited = 0
    PRISTINE = Pristine()
    try:
        _run(spec, ctx, tier)
    finally:
        PRISTINE.close()
        PRISTINE = None


def _run(spec: dict, ctx: Ctx, tier: str) -> None:
    if spec.get("mode") == "model":
        from .. import libgames
        names = [x for x in libgames.names() if max_n_for(x, "quick") >= 4]
        strat = st.builds(lambda name, n, seed, draws: {"kind": "model", "name": name, "n": n, "seed": seed, "draws": draws},
                          st.sampled_from(names), st.integers(3, 4),
                          st.one_of(st.sampled_from([0, 0, 1, 2**32, 2**32 - 1]), st.integers(0, 2**40)), st.integers(1, 3))
        ctx.run_given(strat, check_case, spec["examples"])
        return
    visited = 0
    for j, name in enumerate(spec["names"]):
        for n in range(3, max_n_for(name, tier) + 1):
            strat = st.integers(0, 2**32 - 1).map(lambda seed, name=name, n=n: {"name": name, "n": n, "seed": seed})
            per = spec["seeds"] if n <= 6 else max(2, spec["seeds"] // 3)
            if n <= 4 and name not in ("oxs", "covg_fn_generator"):
                per *= 5       # small games are cheap, and rare draws (an edgeless random graph, a degenerate owner...) live there
            ctx.run_given(strat, check_case, per, sub_seed=(j * 16 + n) % 9973)
            visited += 1
    ctx.extra["name_n_pairs_visited"] = visited
    ctx.extra["exhaustive_parts"] = ["every registry key in this shard x every n of the tier (seeds generated)"]
