"""C14  Regret minimiser: constructible at every size; strategies are valid distributions; one-step regret model."""
from __future__ import annotations

import itertools
import shutil
import tempfile
from pathlib import Path

from hypothesis import strategies as st

from ..core import Ctx, Result, guarded
from ..oracles import popcount

ID = "C14"
LEVEL = "exploration"
RULE = ("Enumeration of every (n, limit) with n=3 (limits 1..5), n=4 (limits 1..12), n=5 (limits 1..3 thorough, 1..2 quick) x plain/plus, "
        "generation (Hypothesis) of iteration histories: 1..6 iterations, each with non-negative terminal values (int / dyadic, "
        "float32-representable) for a drawn subset of the leaves in a drawn order, optional save/load between iterations. Oracles: "
        "construction succeeds; rank list = every coalition set of size <= limit exactly once, sizes non-decreasing, inverse table "
        "inverts it; before and after every iteration every internal node's regret-matching strategy is finite, >= 0, sums to 1, "
        "is 0 on coalitions already in the node (judged on a snapshot per node AND on the returned objects held until all nodes were asked and across the next iteration: a strategy once handed out must stay what it was), and the average strategy is a distribution over original coalition ids supported "
        "on viable unrevealed coalitions; ONE-STEP MODEL in float64 from the observed strategies: expected values bottom-up, reach "
        "top-down, cumulative_regret == old + (q - expected) (positive part for plus), cumulative_strategy == old + weight * "
        "strategy * reach; added regret orthogonal to the strategy; plus keeps regret >= 0; save+load+continue == continue, bit for "
        "bit. Non-trivial: limit < #coalitions - 1, or >= 2 iterations with non-uniform terminal values; distinct = hash of the case.")
LEVEL_TEXT = ("All (player count, limit, variant) configurations of the stated range are enumerated; iteration histories are generated "
              "and each iteration is compared with an independent float64 one-step model. Invariants are checked at every node of the "
              "tree. Exploration over histories; no proof.")
LEVEL_NOTE = ("Trusted: the float64 one-step model in this file. float32 tolerance 1e-4*(1+max terminal value). The model consumes the "
              "strategies the implementation actually played (regret matching is discontinuous at 0, an end-to-end re-implementation "
              "would raise false alarms on float32 ties).")
TECHNIQUE = "property-based testing: configuration enumeration + Hypothesis-generated iteration histories vs float64 one-step reference model and distribution invariants"
ASSUMPTIONS = ["terminal values are non-negative, as the statement requires", "n in 3..5 (the bitmask representation's range)"]


def viable(n: int) -> list[int]:
    return [s for s in range(1 << n) if popcount(s) not in (0, 1, n)]


def noc_of(n: int) -> int:
    return (1 << n) - n - 2


def bits(mask: int) -> list[int]:
    return [i for i in range(mask.bit_length()) if mask >> i & 1]


class Sim:
    def __init__(self, n: int, limit: int, plus: bool):
        import numpy as np
        from incomplete_cooperative.regret import GameRegretMinimizer
        self.np = np
        self.n, self.limit, self.plus = n, limit, plus
        self.noc = noc_of(n)
        self.L = min(limit, self.noc)
        self.viable = viable(n)
        self.rm = GameRegretMinimizer(n, limit, plus)
        self.cls = GameRegretMinimizer
        self.internal = [m for r in range(self.L) for m in self._sets(r)]
        self.leaves = list(self._sets(self.L))
        self.iter = 0
        self.ckpt_dirs: list = []
        self.checkpoints: list = []

    def _sets(self, r: int):
        for c in itertools.combinations(range(self.noc), r):
            yield sum(1 << x for x in c)

    # -- structural claims ----------------------------------------------------------------------------
    def check_structure(self, res: Result) -> None:
        np = self.np
        rm = self.rm
        ids = [int(x) for x in rm.meta_rank_to_id]
        want = [m for r in range(self.L + 1) for m in self._sets(r)]
        if sorted(ids) != sorted(want) or len(set(ids)) != len(ids):
            res.fail(f"rank-list :: n={self.n} limit={self.limit}: {len(ids)} ids, expected every set of size <= {self.L} once ({len(want)})")
            return
        sizes = [popcount(x) for x in ids]
        if sizes != sorted(sizes):
            res.fail(f"rank-order :: n={self.n} limit={self.limit}: ranks not ordered by set size")
        inv = rm.meta_id_to_rank
        if any(int(inv[i]) != r for r, i in enumerate(ids)):
            res.fail(f"rank-inverse :: n={self.n} limit={self.limit}: meta_id_to_rank does not invert meta_rank_to_id")
        if rm.number_of_regret_minimizers != len(self.internal):
            res.fail(f"internal-nodes :: n={self.n} limit={self.limit}: {rm.number_of_regret_minimizers} regret minimisers, {len(self.internal)} internal nodes")
        if rm.cumulative_regret.shape != (len(self.internal), self.noc) or rm.cumulative_strategy.shape != (len(self.internal), self.noc):
            res.fail(f"table-shape :: n={self.n} limit={self.limit}: {rm.cumulative_regret.shape}")
        cmap = [int(x) for x in rm.coalitions_to_player_ids]
        wantmap = [-1] * (1 << self.n)
        for j, s in enumerate(self.viable):
            wantmap[s] = j
        if cmap != wantmap:
            res.fail(f"coalition-map :: n={self.n}: {cmap}")

    # -- distribution invariants ------------------------------------------------------------------------
    def strategies(self, res: Result, where: str, nodes=None) -> dict[int, list[float]]:
        np = self.np
        from .. import repo
        out = {}
        held = {}
        for m in (self.internal if nodes is None else nodes):
            # what the caller holds (the returned object itself, as a user collecting the strategies of several nodes would) and
            # a snapshot of it at the time of the call; they are compared once all nodes have been asked
            held[m] = self.rm.regret_matching_strategy(int(m))
            s = np.array(held[m], dtype=np.float64, copy=True)
            out[m] = s
            used = bits(m)
            if s.shape != (self.noc,) or not np.all(np.isfinite(s)):
                res.fail(f"strategy-not-finite :: {where}: node {m}: {s.tolist()}")
                return out
            if np.any(s < 0) or abs(float(s.sum()) - 1.0) > 1e-5:
                res.fail(f"strategy-not-a-distribution :: {where}: node {m}: sum {float(s.sum())!r}, min {float(s.min())!r}")
                return out
            if any(s[u] != 0 for u in used):
                res.fail(f"strategy-on-revealed-coalition :: {where}: node {m} puts mass {[float(s[u]) for u in used]} on its own coalitions {used}")
                return out
        for m, h in held.items():
            if not np.array_equal(np.asarray(h, dtype=np.float64), out[m]):
                res.fail(f"held-strategy-overwritten :: {where}: the strategy returned for node {m} changed while other nodes were asked "
                         f"(it now reads {np.asarray(h, dtype=np.float64).tolist()}, it was {out[m].tolist()}): collected strategies are no longer distributions of their nodes")
                break
        self.held = held
        self.held_snap = out
        return out

    def averages(self, res: Result, where: str, nodes) -> None:
        np = self.np
        from .. import repo
        for m in nodes:
            past = [repo.coal(self.viable[u]) for u in bits(m)]
            a = np.asarray(self.rm.get_average_strategy(past), dtype=np.float64)
            if a.shape != (1 << self.n,) or not np.all(np.isfinite(a)):
                res.fail(f"average-not-finite :: {where}: node {m}: {a.tolist()}")
                return
            if np.any(a < 0) or abs(float(a.sum()) - 1.0) > 1e-5:
                res.fail(f"average-not-a-distribution :: {where}: node {m}: sum {float(a.sum())!r}")
                return
            used = {self.viable[u] for u in bits(m)}
            for s in range(1 << self.n):
                if a[s] != 0 and (s not in self.viable or s in used):
                    res.fail(f"average-support :: {where}: node {m} puts mass {float(a[s])!r} on coalition {s} ({'not viable' if s not in self.viable else 'already revealed'})")
                    return
            # the list-of-coalitions entry point of the current strategy agrees with the id entry point
            cur = np.asarray(self.rm.regret_matching_strategy(past), dtype=np.float64)
            if not np.array_equal(cur, np.asarray(self.rm.regret_matching_strategy(int(m)), dtype=np.float64)):
                res.fail(f"entry-points-differ :: {where}: node {m}")
                return

    # -- one iteration with the one-step model ------------------------------------------------------------
    def iterate(self, res: Result, leaf_idx: list[int], values: list[float], where: str) -> None:
        np = self.np
        from .. import repo
        rm = self.rm
        strat = self.strategies(res, where + " (before)")
        if res.failures:
            return
        old_reg = rm.cumulative_regret.astype(np.float64).copy()
        old_str = rm.cumulative_strategy.astype(np.float64).copy()
        leaves = [self.leaves[i] for i in leaf_idx]
        used_actions = [[repo.coal(self.viable[u]) for u in bits(m)] for m in leaves]
        held, held_snap = self.held, self.held_snap
        rm.regret_min_iteration(np.array(values, dtype=np.float64), used_actions)
        self.iter += 1
        for m, h in held.items():
            if not np.array_equal(np.asarray(h, dtype=np.float64), held_snap[m]):
                res.fail(f"held-strategy-overwritten :: {where}: the strategy handed out for node {m} before the iteration was changed by the iteration")
                break
        if rm.iteration != self.iter:
            res.fail(f"iteration-counter :: {where}: {rm.iteration} expected {self.iter}")
        # model
        val = {m: 0.0 for m in self.leaves}
        for m, x in zip(leaves, values):
            val[m] = float(np.float32(x))
        reach = {m: 0.0 for m in self.internal}
        reach.update({m: 0.0 for m in self.leaves})
        reach[0] = 1.0
        for m in self.internal:                       # increasing size: parents before children
            for x in range(self.noc):
                if not m >> x & 1:
                    reach[m | 1 << x] += reach[m] * float(strat[m][x])
        q = {}
        for m in reversed(self.internal):             # children (larger sets) first
            qm = np.zeros(self.noc)
            for x in range(self.noc):
                if not m >> x & 1:
                    qm[x] = val[m | 1 << x]
            q[m] = qm
            val[m] = float((qm * strat[m]).sum())
        scale = 1.0 + max([abs(float(x)) for x in values] + [0.0])
        tol = 1e-4 * scale * max(1, self.iter)
        rank = {int(i): r for r, i in enumerate(rm.meta_rank_to_id)}
        new_reg = rm.cumulative_regret.astype(np.float64)
        new_str = rm.cumulative_strategy.astype(np.float64)
        weight = self.iter if self.plus else 1
        for m in self.internal:
            r = rank[m]
            added = q[m] - val[m]
            ortho = float((added * strat[m]).sum())
            if abs(ortho) > 1e-5 * scale * self.noc:      # observed strategies are float32: they sum to 1 within ~1e-7 only
                from ..core import HarnessError
                raise HarnessError(f"one-step model: added regret not orthogonal to the strategy in the model itself ({ortho})")
            want = old_reg[r] + added
            if self.plus:
                want = np.maximum(want, 0.0)
            if not np.all(np.isfinite(new_reg[r])) or np.max(np.abs(new_reg[r] - want)) > tol:
                j = int(np.argmax(np.abs(new_reg[r] - want)))
                res.fail(f"regret-update :: {where}: node {m} action {j}: cumulative regret {float(new_reg[r][j])!r}, model old + (q - expected) = {float(want[j])!r}")
                return
            if not self.plus:
                delta = new_reg[r] - old_reg[r]
                if abs(float((delta * strat[m]).sum())) > tol * 4:
                    res.fail(f"regret-not-orthogonal :: {where}: node {m}: <added regret, strategy> = {float((delta * strat[m]).sum())!r}")
                    return
            want_s = old_str[r] + weight * strat[m] * reach[m]
            if not np.all(np.isfinite(new_str[r])) or np.max(np.abs(new_str[r] - want_s)) > 1e-4 * max(1, weight) * max(1, self.iter):
                j = int(np.argmax(np.abs(new_str[r] - want_s)))
                res.fail(f"strategy-update :: {where}: node {m} action {j}: cumulative strategy {float(new_str[r][j])!r}, model {float(want_s[j])!r} (reach {reach[m]!r})")
                return
        if self.plus and np.any(rm.cumulative_regret < 0):
            res.fail(f"plus-negative-regret :: {where}: min {float(rm.cumulative_regret.min())!r}")
        self.strategies(res, where + " (after)")
        if not res.failures:
            self.averages(res, where + " (after)", self._probe_nodes())

    def check_checkpoints(self, res: Result, where: str) -> None:
        """A checkpoint is a value: loading it again returns what was saved, no matter what loaded copies did since."""
        np = self.np
        for path, it, reg, strat in self.checkpoints:
            again = self.cls.load(path)
            if again.iteration != it or not np.array_equal(np.asarray(again.cumulative_regret), reg) \
                    or not np.array_equal(np.asarray(again.cumulative_strategy), strat):
                res.fail(f"checkpoint-changed-on-disk :: {where}: loading {path.name} again no longer returns the saved minimiser "
                         f"(saved at iteration {it}); nobody called save() in between")
                return

    def close(self) -> None:
        for d in self.ckpt_dirs:
            shutil.rmtree(d, ignore_errors=True)

    def _probe_nodes(self):
        if len(self.internal) <= 64:
            return self.internal
        step = max(1, len(self.internal) // 48)
        return self.internal[::step] + self.internal[-8:]

    def save_load(self, res: Result, where: str) -> None:
        np = self.np
        d = Path(tempfile.mkdtemp(prefix="vp-c14-"))
        self.ckpt_dirs.append(d)
        self.rm.save(d / "rm")
        loaded = self.cls.load(d / "rm")
        # remember what was saved: loading the same directory later must give exactly this, whatever the copies do meanwhile
        self.checkpoints.append((d / "rm", self.rm.iteration, self.rm.cumulative_regret.copy(), self.rm.cumulative_strategy.copy()))
        a, b = self.rm, loaded
        same = (a.iteration == b.iteration and a.plus == b.plus and a.number_of_players == b.number_of_players
                and a.limit_of_revealed == b.limit_of_revealed and a.cumulative_regret.dtype == b.cumulative_regret.dtype
                and np.array_equal(a.cumulative_regret, b.cumulative_regret) and np.array_equal(a.cumulative_strategy, b.cumulative_strategy)
                and np.array_equal(a.meta_rank_to_id, b.meta_rank_to_id))
        if not same:
            res.fail(f"save-load :: {where}: loaded minimiser differs (iteration {a.iteration} vs {b.iteration})")
        self.shadow = a          # keep the original running in parallel: both must continue identically
        self.rm = b
        self.has_shadow = True


@guarded
def check_case(case: dict) -> Result:
    import numpy as np
    res = Result()
    n, limit, plus = case["n"], case["limit"], case["plus"]
    sim = Sim(n, limit, plus)
    try:
        return _check_case(case, sim, res)
    finally:
        sim.close()     # checkpoint directories never outlive a case, even when the code under test raises


def _check_case(case: dict, sim: "Sim", res: Result) -> Result:
    import numpy as np
    n, limit, plus = case["n"], case["limit"], case["plus"]
    sim.check_structure(res)
    if res.failures:
        return res
    sim.strategies(res, "fresh")
    if not res.failures:
        sim.averages(res, "fresh", sim._probe_nodes())
    nonuniform = 0
    shadow = None
    for i, it in enumerate(case["iterations"]):
        if res.failures:
            break
        idx = [j % len(sim.leaves) for j in it["leaves"]]
        seen, idx2, vals2 = set(), [], []
        for j, x in zip(idx, it["values"]):
            if j not in seen:
                seen.add(j)
                idx2.append(j)
                vals2.append(x)
        if len(set(vals2)) > 1 or (len(idx2) < len(sim.leaves) and any(vals2)):
            nonuniform += 1
        if shadow is not None:
            from .. import repo
            leaves = [sim.leaves[j] for j in idx2]
            shadow.regret_min_iteration(np.array(vals2, dtype=np.float64), [[repo.coal(sim.viable[u]) for u in bits(m)] for m in leaves])
        sim.iterate(res, idx2, vals2, f"n={n} limit={limit} plus={plus} iteration {i + 1}")
        if shadow is not None and not res.failures:
            if not (np.array_equal(shadow.cumulative_regret, sim.rm.cumulative_regret)
                    and np.array_equal(shadow.cumulative_strategy, sim.rm.cumulative_strategy) and shadow.iteration == sim.rm.iteration):
                res.fail(f"save-load-continue :: n={n} limit={limit} plus={plus}: after iteration {i + 1} the loaded minimiser differs from the one that was never saved")
        if not res.failures:
            sim.check_checkpoints(res, f"n={n} limit={limit} plus={plus} after iteration {i + 1}")
        if it.get("save") and not res.failures:
            sim.save_load(res, f"n={n} limit={limit} plus={plus} after iteration {i + 1}")
            shadow = sim.shadow
    res.nontrivial = limit < sim.noc - 1 or nonuniform >= 2
    res.label(f"n={n}", f"limit={limit}", f"plus={plus}", f"iterations={len(case['iterations'])}")
    if limit < sim.noc - 1:
        res.label("limit-below-noc-1")
    if limit > sim.noc:
        res.label("limit-above-noc")
    return res


@st.composite
def histories(draw, n: int, limit: int, plus: bool):
    noc = noc_of(n)
    L = min(limit, noc)
    import math
    nleaves = math.comb(noc, L)
    its = []
    for _ in range(draw(st.integers(1, 6 if nleaves < 500 else 3))):
        k = draw(st.integers(1, min(nleaves, 40)))
        if draw(st.booleans()) and nleaves <= 300:
            leaves = list(draw(st.permutations(list(range(nleaves)))))
            if draw(st.booleans()):
                leaves = leaves[:max(1, len(leaves) // 2)]
        else:
            leaves = draw(st.lists(st.integers(0, nleaves - 1), min_size=1, max_size=k, unique=True))
        vals = draw(st.lists(st.one_of(st.integers(0, 20).map(float), st.integers(0, 640).map(lambda x: x / 32.0)),
                             min_size=len(leaves), max_size=len(leaves)))
        its.append({"leaves": leaves, "values": vals, "save": draw(st.integers(0, 3)) == 0})
    return {"n": n, "limit": limit, "plus": plus, "iterations": its}


def configs(tier: str) -> list[tuple[int, int]]:
    out = [(3, l) for l in range(1, 6)] + [(4, l) for l in range(1, 13)]
    out += [(5, l) for l in range(1, 3 if tier == "quick" else 4)]
    return out


def plan(tier: str) -> list[dict]:
    cfgs = configs(tier)
    per = 4 if tier == "quick" else 60
    shards = 4 if tier == "quick" else 16
    out = [{"configs": cfgs[k::shards], "histories": per, "cost": 4} for k in range(shards)]
    return out


def run_shard(spec: dict, ctx: Ctx) -> None:
    for j, (n, limit) in enumerate(spec["configs"]):
        for plus in (False, True):
            per = spec["histories"] if not (n == 5 and limit >= 3) else max(1, spec["histories"] // 3)
            # shrinking re-runs whole iteration histories: affordable only for small trees (the unshrunk case is kept otherwise)
            ctx.run_given(histories(n, limit, plus), check_case, per, shrink=(n == 3 or (n == 4 and limit <= 3)), sub_seed=j * 2 + int(plus))
    ctx.extra["exhaustive_parts"] = [f"configurations (n, limit) {spec['configs']} x plain/plus all visited (histories generated)"]
