"""C07  More information never hurts: intervals shrink, every gap is non-increasing."""
from __future__ import annotations

from hypothesis import strategies as st

from ..core import Ctx, Result, guarded
from ..games import EXACT, knowledge_sets, sam_games, scale_of, seeded_knowledge, superadditive_games
from ..oracles import gap_tol, minimal_masks, ref_gap

ID = "C07"
LEVEL = "exploration"
GAPS = ("exploitability", "l1_norm", "l2_norm", "linf_norm")
RULE = ("(a) Exhaustive lattice: for a drawn game (superadditive for the SA computers, SAM for sam_apx_r) bounds are computed "
        "for EVERY knowledge set of n=3 (8) / n=4 (1024) and compared along EVERY edge K -> K+{S} (12 / 5120 edges). "
        "(b) Hypothesis-sampled reveal paths from a drawn K0 to full knowledge for n=5..7, short seeded walks (6 reveals) at n=9 (8..10 thorough). (c) reveal paths driven through ICG_Gym over 2-3 episodes with reset() between them and a cyclic list of hidden games (n=3..5). Oracles per edge: lower never "
        "decreases, upper never increases, each registered gap function (taken from the GAP_FUNCTIONS registry) non-increasing, "
        ">= 0, == 0 at full knowledge, and equal to an independent gap oracle evaluated on the same bounds. Non-trivial: a "
        "case containing an edge on which some OTHER coalition's interval strictly shrinks (propagation); distinct = hash of "
        "(game, computer[, path]).")
LEVEL_TEXT = ("Every edge of the knowledge lattice is enumerated for n<=4 per drawn game (exhaustive in K and in reveal order), "
              "sampled paths above; the for-all over games is explored. Independent gap oracles make a swapped or mis-weighted gap "
              "function visible.")
LEVEL_NOTE = ("Trusted: harness game constructions (superadditive / SAM by construction), oracles.ref_gap. Exact comparisons on "
              "int/dyadic games for bounds, l1, l-inf; stated float tolerances for l2 / exploitability and float games.")
TECHNIQUE = "property-based testing: exhaustive knowledge-lattice edge enumeration (n<=4) + Hypothesis reveal paths, monotonicity (metamorphic) and independent gap oracles"
ASSUMPTIONS = [
    "games of the class matching the computer only (superadditive / superadditive-monotone)",
    "gap tolerances: 0 for l1/l-inf on exact games, otherwise oracles.gap_tol (<= 64*n*2^n*eps*scale)",
]


def _gap_funcs():
    from incomplete_cooperative.run.model import GAP_FUNCTIONS
    return GAP_FUNCTIONS


def _measure(g, n, names, gf):
    from .. import repo
    known, lo, up = repo.table(g)
    return lo, up, {name: float(gf[name](g)) for name in names}


def _edge(res, n, cls, v, before, after, revealed, where, names) -> bool:
    """Compare the state before/after revealing ``revealed``; return True if another interval strictly shrank."""
    lo0, up0, g0 = before
    lo1, up1, g1 = after
    tol = 0.0 if cls in EXACT else 1e-9 * scale_of(v)
    prop = False
    for s in range(1 << n):
        if lo1[s] < lo0[s] - tol:
            res.fail(f"lower-decreased :: {where}: coalition {s} lower {lo0[s]!r} -> {lo1[s]!r}")
        if up1[s] > up0[s] + tol:
            res.fail(f"upper-increased :: {where}: coalition {s} upper {up0[s]!r} -> {up1[s]!r}")
        if s != revealed and (lo1[s] > lo0[s] or up1[s] < up0[s]):
            prop = True
    for name in names:
        t = max(gap_tol(name, lo0, up0, n), gap_tol(name, lo1, up1, n))
        if cls in EXACT and name in ("l1_norm", "linf_norm"):
            t = 0.0
        if g1[name] > g0[name] + t:
            res.fail(f"gap-increased :: {where}: {name} {g0[name]!r} -> {g1[name]!r}")
    return prop


def _state_checks(res, n, cls, state, names, where, full: bool):
    lo, up, gaps = state
    for name in names:
        t = gap_tol(name, lo, up, n)
        ref = ref_gap(name, lo, up, n)
        exact = cls in EXACT and name in ("l1_norm", "linf_norm")
        if abs(gaps[name] - ref) > (0.0 if exact else t):
            res.fail(f"gap!=oracle :: {where}: {name} = {gaps[name]!r}, independent computation {ref!r}")
        if gaps[name] < -t:
            res.fail(f"gap-negative :: {where}: {name} = {gaps[name]!r}")
        if full and abs(gaps[name]) > t:
            res.fail(f"gap-nonzero-at-full-knowledge :: {where}: {name} = {gaps[name]!r}")


@guarded
def check_case(case: dict) -> Result:
    from .. import repo
    res = Result()
    game = case["game"]
    n, v, cls = game["n"], game["v"], game["cls"]
    comp = case["computer"]
    names = case.get("gaps", GAPS)
    gf = _gap_funcs()
    g = repo.new_game(n, comp)
    mins = minimal_masks(n)
    rest = [s for s in range(1 << n) if s not in mins]
    propagated = 0
    if case["kind"] == "envpath":
        return _check_envpath(case, res, names, gf)
    if case["kind"] == "lattice":
        states = {}
        for bits in range(1 << len(rest)):
            k = mins | {rest[j] for j in range(len(rest)) if bits >> j & 1}
            repo.set_knowledge(g, v, k)
            g.compute_bounds()
            states[bits] = _measure(g, n, names, gf)
            _state_checks(res, n, cls, states[bits], names, f"{comp} K-bits={bits:b}", full=(bits == (1 << len(rest)) - 1))
            if res.failures:
                break
        edges = 0
        if not res.failures:
            for bits in range(1 << len(rest)):
                for j in range(len(rest)):
                    if bits >> j & 1:
                        continue
                    edges += 1
                    if _edge(res, n, cls, v, states[bits], states[bits | 1 << j], rest[j],
                             f"{comp} edge K-bits={bits:b} + coalition {rest[j]}", names):
                        propagated += 1
                if res.failures:
                    break
        res.labels.append(f"edges={edges}")
    else:
        k = set(case["K0"])
        repo.set_knowledge(g, v, k)
        g.compute_bounds()
        state = _measure(g, n, names, gf)
        _state_checks(res, n, cls, state, names, f"{comp} K0", full=len(k) == 1 << n)
        for step, s in enumerate(case["order"]):
            g.reveal_value(v[s], repo.coal(s))
            g.compute_bounds()
            k.add(s)
            nxt = _measure(g, n, names, gf)
            _state_checks(res, n, cls, nxt, names, f"{comp} after reveal {step} ({s})", full=len(k) == 1 << n)
            if _edge(res, n, cls, v, state, nxt, s, f"{comp} reveal {step} of coalition {s}", names):
                propagated += 1
            state = nxt
            if res.failures:
                break
    res.nontrivial = propagated > 0
    res.label(f"n={n}", f"cls={cls}", f"comp={comp}", case["kind"])
    if propagated:
        res.label("propagating-edge")
    return res


def _check_envpath(case: dict, res: Result, names, gf) -> Result:
    """Reveal paths driven through ICG_Gym over several episodes (reset between them): what the agent, the solvers and
    evaluate() actually experience.  Same edge / state oracles, measured on the environment's incomplete game."""
    from incomplete_cooperative.coalitions import minimal_game_coalitions
    from incomplete_cooperative.icg_gym import ICG_Gym
    from .. import libgames, repo
    specs = case["games"]
    n = case["game"]["n"]
    comp = case["computer"]
    counter = {"calls": 0}

    def gen():
        spec = specs[counter["calls"] % len(specs)]
        counter["calls"] += 1
        return libgames.spec_game(spec)

    inc = repo.new_game(n, comp)
    env = ICG_Gym(inc, gen, minimal_game_coalitions(inc), gf[case["gap"]], done_after_n_actions=None)
    propagated = 0
    for ep, order in enumerate(case["episodes"]):
        if ep > 0:
            env.reset()
        cur = (counter["calls"] - 1) % len(specs)
        v = libgames.spec_values(specs[cur])
        cls = specs[cur].get("cls", "float")
        state = _measure(inc, n, names, gf)
        _state_checks(res, n, cls, state, names, f"{comp} episode {ep} start", full=False)
        for step, a in enumerate(order):
            if not env.action_masks()[a]:
                continue
            out = env.step(a)
            s_ = out[4]["chosen_coalition"]
            nxt = _measure(inc, n, names, gf)
            full = not any(env.action_masks())
            _state_checks(res, n, cls, nxt, names, f"{comp} episode {ep} after step {step} (coalition {s_})", full=full)
            if _edge(res, n, cls, v, state, nxt, s_, f"{comp} episode {ep} step {step}: reveal of coalition {s_} through the environment", names):
                propagated += 1
            if abs(float(out[1]) + nxt[2][case["gap"]]) > 0:
                res.fail(f"reward!=-gap :: episode {ep} step {step}: returned reward {float(out[1])!r}, gap {nxt[2][case['gap']]!r}")
            state = nxt
            if res.failures:
                break
        if res.failures:
            break
    res.nontrivial = propagated > 0 and len(case["episodes"]) >= 2
    res.label(f"n={n}", f"comp={comp}", "envpath", f"episodes={len(case['episodes'])}")
    return res


@st.composite
def envpath_cases(draw, n_min: int, n_max: int):
    n = draw(st.integers(n_min, n_max))
    sam = draw(st.integers(0, 2)) == 0
    k = draw(st.integers(2, 3))
    games = []
    for _ in range(k):
        g = draw(sam_games(n, n)) if sam else draw(superadditive_games(n, n))
        games.append({"kind": "table", "n": n, "v": g["v"], "cls": g["cls"], "how": g["how"]})
    comp = draw(st.sampled_from(["sam_apx_1", "sam_apx_3"] if sam else ["superadditive", "superadditive_cached"]))
    nact = (1 << n) - n - 2
    episodes = [list(draw(st.permutations(list(range(nact)))))[:draw(st.integers(1, nact))] for _ in range(draw(st.integers(2, 3)))]
    return {"kind": "envpath", "game": {"n": n, "cls": "mixed", "how": "env", "v": []}, "games": games, "computer": comp,
            "gap": draw(st.sampled_from(list(GAPS))), "episodes": episodes}


@st.composite
def lattice_cases(draw, n: int, sam: bool):
    if sam:
        game = draw(sam_games(n, n))
        comp = draw(st.sampled_from(["sam_apx_1", "sam_apx_3", "sam_apx_10"]))
    else:
        game = draw(superadditive_games(n, n))
        comp = draw(st.sampled_from(["superadditive_cached", "superadditive"] if n <= 3 else ["superadditive_cached"] * 3 + ["superadditive"]))
    return {"kind": "lattice", "game": game, "computer": comp}


@st.composite
def path_cases(draw, min_n: int, max_n: int):
    sam = draw(st.integers(0, 2)) == 0 and min_n <= 6
    if sam:
        game = draw(sam_games(min_n, min(max_n, 6)))
        comp = draw(st.sampled_from(["sam_apx_1", "sam_apx_3", "sam_apx_10"]))
    else:
        game = draw(superadditive_games(min_n, max_n))
        comp = draw(st.sampled_from(["superadditive_cached", "superadditive"])) if game["n"] <= 6 else "superadditive_cached"
    n = game["n"]
    k0 = draw(knowledge_sets(n)) if n <= 6 else seeded_knowledge(n, draw(st.integers(0, 2**31)))
    unknown = [s for s in range(1 << n) if s not in set(k0)]
    if n >= 8:
        # large tables: a short seeded walk (the first reveals are where a mis-ordered structure table shows)
        import random
        order = random.Random(draw(st.integers(0, 2**31))).sample(unknown, min(6, len(unknown)))
    else:
        order = draw(st.permutations(unknown)) if unknown else []
    return {"kind": "path", "game": game, "computer": comp, "K0": k0, "order": list(order)}


def _sample(case):
    g = case["game"]
    c = {k: v for k, v in case.items() if k != "game"}
    c["game"] = {"n": g["n"], "cls": g["cls"], "how": g["how"], "v": g["v"] if g["n"] <= 4 else g["v"][:16] + ["..."]}
    if "order" in c:
        c["order"] = c["order"][:20]
        c["K0"] = c["K0"][:24]
    return c


def _sample_env(case):
    c = dict(case)
    c["games"] = [{k: (v if k != "v" or len(v) <= 16 else v[:16] + ["..."]) for k, v in g.items()} for g in case["games"][:2]]
    return c


def plan(tier: str) -> list[dict]:
    if tier == "quick":
        return [{"mode": "lattice", "n": 3, "sam": False, "examples": 30, "cost": 1},
                {"mode": "lattice", "n": 3, "sam": True, "examples": 30, "cost": 1},
                {"mode": "lattice", "n": 4, "sam": False, "examples": 5, "cost": 3},
                {"mode": "lattice", "n": 4, "sam": False, "examples": 5, "cost": 3},
                {"mode": "lattice", "n": 4, "sam": True, "examples": 4, "cost": 3},
                {"mode": "lattice", "n": 4, "sam": True, "examples": 4, "cost": 3},
                {"mode": "path", "min_n": 5, "max_n": 5, "examples": 120, "cost": 3},
                {"mode": "path", "min_n": 5, "max_n": 5, "examples": 120, "cost": 3},
                {"mode": "path", "min_n": 5, "max_n": 6, "examples": 60, "cost": 3},
                {"mode": "path", "min_n": 9, "max_n": 9, "examples": 4, "cost": 3},
                {"mode": "envpath", "min_n": 3, "max_n": 5, "examples": 100, "cost": 3}]
    return ([{"mode": "lattice", "n": 3, "sam": s, "examples": 400, "cost": 2} for s in (False, True)]
            + [{"mode": "lattice", "n": 4, "sam": False, "examples": 40, "cost": 10} for _ in range(5)]
            + [{"mode": "lattice", "n": 4, "sam": True, "examples": 30, "cost": 10} for _ in range(3)]
            + [{"mode": "path", "min_n": 5, "max_n": 6, "examples": 300, "cost": 8} for _ in range(5)]
            + [{"mode": "path", "min_n": 7, "max_n": 7, "examples": 12, "cost": 8}, {"mode": "path", "min_n": 8, "max_n": 10, "examples": 12, "cost": 8}]
            + [{"mode": "envpath", "min_n": 3, "max_n": 5, "examples": 600, "cost": 8} for _ in range(2)])


def run_shard(spec: dict, ctx: Ctx) -> None:
    if spec["mode"] == "lattice":
        ctx.run_given(lattice_cases(spec["n"], spec["sam"]), check_case, spec["examples"], sample_of=_sample)
        n = spec["n"]
        ctx.extra["exhaustive_parts"] = [f"every knowledge set and every lattice edge of n={n} for each drawn game"]
    elif spec["mode"] == "envpath":
        ctx.run_given(envpath_cases(spec["min_n"], spec["max_n"]), check_case, spec["examples"], sample_of=_sample_env)
    else:
        ctx.run_given(path_cases(spec["min_n"], spec["max_n"]), check_case, spec["examples"], sample_of=_sample)
