"""C20  Saving results is all-or-nothing under a crash (fault enumeration)."""
from __future__ import annotations

import json
import os
import shutil
import tempfile
from pathlib import Path

from hypothesis import strategies as st

from ..core import Ctx, Result, guarded
from .c19 import _json_eq, make_output, out_specs

ID = "C20"
LEVEL = "fault_enumeration"
MODES = ("kill", "torn", "interrupt", "ioerror")
RULE = ("Hypothesis draws a file history (0..4 earlier runs, matrices 1x1 .. 40x20, NaN and non-JSON metadata included) and one new "
        "save; a dry run under the I/O interceptor (vp/faults.py: open / write / flush / close / truncate / replace / rename / fsync / "
        "remove on paths in the results directory) numbers the E I/O events of that save; then EVERY crash point k in 0..E (all of "
        "them when E <= 400, otherwise both ends and 200 interior points) is executed in four modes: kill (forked child, os._exit "
        "at event k, user-space buffers lost), torn (half of the chunk of a write event reaches the OS, then exit), interrupt "
        "(KeyboardInterrupt at event k, normal unwinding), ioerror (the interruption arrives as TimeoutError, an OSError subclass, at event k - reads of the previous file included). Half of the cases place the results directory on a different file system than the process's scratch directory (tempfile.gettempdir(); /dev/shm here), so that a temporary file created 'somewhere' cannot be renamed into place. Oracle after each fault: the bytes of data.json are exactly the previous "
        "bytes (or the file is still absent) or the complete new content; the file parses and get_outputs_from_file returns all "
        "earlier runs unchanged; a subsequent un-faulted save of the same run yields previous + new. Non-trivial: crash strictly "
        "between the first and last I/O event of a save onto a file that already holds >= 1 run; distinct = (history hash, k, mode).")
LEVEL_TEXT = ("Fault enumeration: for each generated (history, new run) every I/O event of the save is a crash point and all are "
              "executed (exhaustive per case for E <= 400) in four failure modes, with the previous/new file contents as oracle. "
              "The for-all over histories is explored.")
LEVEL_NOTE = ("Process death is modelled at the Python I/O call boundary (where this code's behaviour is decided; an extra crash point right after every open-for-write, descriptor-level copies intercepted) plus torn writes; "
              "power loss / fsync durability and non-atomic rename across file systems are not observable here and not claimed. "
              "Left-over temporary files are allowed.")
TECHNIQUE = "fault injection: exhaustive enumeration of I/O crash points (kill / torn write / interrupt) per Hypothesis-generated save history, previous-or-new oracle"
ASSUMPTIONS = ["crash = process death or KeyboardInterrupt at an I/O call boundary; the kernel applies completed write(2)/rename(2) calls",
               "results directory on one file system (not necessarily the one holding $TMPDIR; when the sandbox offers no second file system those cases run on one and are labelled so)"]


def _points(E: int, limit: int = 400, interior: int = 200) -> list[int]:
    if E <= limit:
        return list(range(E + 1))
    step = (E - 20) / interior
    pts = set(range(10)) | set(range(E - 9, E + 1)) | {10 + int(i * step) for i in range(interior)}
    return sorted(p for p in pts if 0 <= p <= E)


def _prepare(case: dict, root: Path):
    """Template directory holding the previous file; returns (previous bytes or None, expected full bytes, E, log)."""
    from incomplete_cooperative.run.save import save_json
    from ..faults import Injector
    tmpl = root / "tmpl"
    tmpl.mkdir()
    path = tmpl / "data.json"
    for name, spec in case["history"]:
        save_json(path, name, make_output(spec))
    prev = path.read_bytes() if path.exists() else None
    dry = root / "dry"
    shutil.copytree(tmpl, dry)
    with Injector(str(dry), None) as inj:
        save_json(dry / "data.json", case["new"][0], make_output(case["new"][1]))
    full = (dry / "data.json").read_bytes()
    return prev, full, inj.count, inj.log


def _state_ok(path: Path, prev: bytes | None, full: bytes, res: Result, where: str, prev_names: set[str]) -> str:
    from incomplete_cooperative.run.save import get_outputs_from_file
    if not path.exists():
        if prev is not None:
            res.fail(f"file-lost :: {where}: results file no longer exists, earlier runs lost")
        return "absent"
    now = path.read_bytes()
    if prev is not None and now == prev:
        which = "previous"
    elif now == full:
        which = "new"
    else:
        which = "other"
        try:
            parsed = json.loads(now.decode())
            if _json_eq(parsed, json.loads(full.decode())):
                which = "new"
            elif prev is not None and _json_eq(parsed, json.loads(prev.decode())):
                which = "previous"
        except ValueError:
            pass
        if which == "other":
            res.fail(f"neither-previous-nor-new :: {where}: file has {len(now)} bytes (previous {len(prev) if prev is not None else 'absent'}, new {len(full)}); "
                     f"head {now[:60]!r}")
            return which
    try:
        outs = get_outputs_from_file(path)
        if not prev_names <= set(outs):
            res.fail(f"earlier-runs-lost :: {where}: {sorted(prev_names - set(outs))} missing")
    except Exception as exc:  # noqa: BLE001
        res.fail(f"unparseable :: {where}: get_outputs_from_file raised {type(exc).__name__}: {exc}")
    return which


def _other_fs_dir():
    """A writable directory on a different file system than tempfile.gettempdir() (None if the sandbox has none)."""
    try:
        here = os.stat(tempfile.gettempdir()).st_dev
        for cand in ("/dev/shm", "/run/shm", os.path.expanduser("~"), "/var/tmp"):
            if os.path.isdir(cand) and os.access(cand, os.W_OK) and os.stat(cand).st_dev != here:
                return cand
    except OSError:
        pass
    return None


@guarded
def check_case(case: dict) -> Result:
    from incomplete_cooperative.run.save import save_json
    from ..faults import Injector
    res = Result()
    # the results directory may live on another file system than the process's default scratch directory (tempfile.gettempdir())
    base_dir = _other_fs_dir() if case.get("fs") == "other" else None
    root = Path(tempfile.mkdtemp(prefix="vp-c20-", dir=base_dir))
    res.label("results-dir-on-other-fs-than-TMPDIR" if base_dir else "results-dir-on-TMPDIR-fs")
    try:
        prev, full, E, log = _prepare(case, root)
        prev_names = {name for name, _ in case["history"]}
        new_name, new_spec = case["new"]
        points = case.get("points") or _points(E)
        modes = case.get("modes") or MODES
        executed = 0
        interior = 0
        outcomes = {"previous": 0, "new": 0, "absent": 0, "other": 0}
        for mode in modes:
            for k in points:
                work = root / "work"
                if work.exists():
                    shutil.rmtree(work)
                shutil.copytree(root / "tmpl", work)
                path = work / "data.json"
                where = f"{mode} at event {k}/{E} ({log[k] if k < len(log) else 'after last event'})"
                if mode in ("interrupt", "ioerror"):
                    try:
                        with Injector(str(work), k, mode):
                            save_json(path, new_name, make_output(new_spec))
                    except (KeyboardInterrupt, TimeoutError):
                        pass
                else:
                    pid = os.fork()
                    if pid == 0:
                        code = 0
                        try:
                            with Injector(str(work), k, mode):
                                save_json(path, new_name, make_output(new_spec))
                        except BaseException:  # noqa: BLE001
                            code = 99
                        finally:
                            os._exit(code)
                    _, status = os.waitpid(pid, 0)
                    ec = os.waitstatus_to_exitcode(status)
                    if ec == 99:
                        res.fail(f"save-raised-in-child :: {where}")
                executed += 1
                which = _state_ok(path, prev, full, res, where, prev_names)
                outcomes[which] = outcomes.get(which, 0) + 1
                if 0 < k < E and prev is not None and new_name not in prev_names:
                    interior += 1
                # recovery: an un-faulted save of the same run succeeds and yields previous + new
                if not res.failures:
                    try:
                        save_json(path, new_name, make_output(new_spec))
                        after = path.read_bytes()
                        if after != full and not _json_eq(json.loads(after.decode()), json.loads(full.decode())):
                            res.fail(f"recovery-wrong-content :: {where}: a later save does not produce previous + new")
                    except Exception as exc:  # noqa: BLE001
                        res.fail(f"recovery-fails :: {where}: a later un-faulted save raised {type(exc).__name__}: {str(exc)[:100]}")
                if res.failures:
                    # minimise: keep exactly this crash point in the replay
                    res.failures = [f"{m} [history of {len(case['history'])} runs, prev {len(prev) if prev is not None else 0} bytes]" for m in res.failures]
                    res.labels.append("first-failing-point=" + json.dumps({"mode": mode, "k": k}))
                    break
            if res.failures:
                break
        res.nontrivial = interior > 0
        res.labels.append(f"crash-points-executed={executed}")
        res.labels.append(f"interior-on-existing-file={interior}")
        res.label(f"history={len(case['history'])}", f"E>={E // 100 * 100}")
        for kname, cnt in outcomes.items():
            if cnt:
                res.labels.append(f"outcome-{kname}={cnt}")
    finally:
        shutil.rmtree(root, ignore_errors=True)
    return res


@st.composite
def big_out_specs(draw):
    """Result sizes up to 40x20 (seeded content so the case stays small)."""
    import random
    rows, cols = draw(st.integers(1, 40)), draw(st.integers(1, 20))
    seed = draw(st.integers(0, 2**31))
    rng = random.Random(seed)
    flat = [rng.choice([float("nan"), rng.uniform(-5, 5), float(rng.randint(0, 30))]) for _ in range(rows * cols)]
    acts = [float(rng.randint(3, 30)) for _ in range(max(1, rows - 1) * cols)]
    return {"data": {"shape": [rows, cols], "flat": flat}, "actions": {"shape": [max(1, rows - 1), cols], "flat": acts},
            "meta": {"seed": seed, "model_dir": {"__t": "path", "v": "some/dir"}}, "func": "eval"}


@st.composite
def cases(draw, small: bool):
    spec = out_specs() if small else st.one_of(out_specs(), big_out_specs())
    hist_n = draw(st.sampled_from([1, 2, 3, 4, 1, 0]))
    names = ["r%d" % i for i in range(hist_n)]
    history = [[nm, draw(spec)] for nm in names]
    new_name = draw(st.sampled_from(["new", "new", "new", "r0", "ü"]))
    return {"history": history, "new": [new_name, draw(spec)], "fs": draw(st.sampled_from(["tmp", "other"]))}


def _sample(case):
    def short(spec):
        return {"data_shape": spec["data"]["shape"], "actions_shape": spec["actions"]["shape"], "meta_keys": sorted(spec["meta"]), "func": spec["func"]}
    return {"history": [[n, short(s)] for n, s in case["history"]], "new": [case["new"][0], short(case["new"][1])]}


def plan(tier: str) -> list[dict]:
    if tier == "quick":
        return [{"examples": 3, "small": False, "cost": 5} for _ in range(8)]
    return [{"examples": 40, "small": False, "cost": 10} for _ in range(16)]


def run_shard(spec: dict, ctx: Ctx) -> None:
    total = {"n": 0}

    def check(case):
        res = check_case(case)
        for lab in res.labels:
            if lab.startswith("crash-points-executed="):
                total["n"] += int(lab.split("=")[1])
        return res
    ctx.run_given(cases(spec["small"]), check, spec["examples"], shrink=False, sample_of=_sample)
    ctx.extra["crash_points_executed"] = total["n"]
    ctx.extra["exhaustive_parts"] = ["every I/O crash point of each drawn save (all when E<=400) x {kill, torn, interrupt, ioerror}"]
