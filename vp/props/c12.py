"""C12  evaluate() records true trajectories; results independent of parallelism."""
from __future__ import annotations

import json
import os
import shutil
import tempfile

from hypothesis import strategies as st

from ..core import Ctx, Result, guarded
from ..oracles import gap_tol, minimal_masks, ref_gap

ID = "C12"
LEVEL = "exploration"
PROCS = (1, 2, 3, 5, 8, 16)
RULE = ("Hypothesis: solver in {greedy, greedy_worst, largest, random} x generator family (continuous-valued families mostly; all "
        "seed-honouring families in thorough) x n=3..4 x seed x repetitions R=1..24 x step limit x gap function x worker-process "
        "counts from {1,2,3,5,8,16}; the call is made exactly as the solve command makes it (ModelInstance, SOLVERS[name](instance), "
        "evaluate(solver.next_step, instance.get_env, R, limit, gap, p, after_reset)). A picklable after_reset recorder writes the "
        "hidden game each worker actually sees to a per-process file. Oracles: (1) every column replays, on an env-free model with "
        "fresh bounds and an independent gap, from a recorded hidden game (perfect matching columns<->records); ids distinct, "
        "explorable, zero padding only after the model says done; (2) matrices for p>1 equal those for p=1 exactly; (3) number of "
        "distinct recorded games == R for continuous seed-honouring generators. A second family of shards runs n=5 with the approximate "
        "SAM bounds (sam_apx_1 / sam_apx_10) on the integer / tied SAM families (k_budget, coverage, xs2, xs3, ...) mostly under the "
        "order-agnostic random solver, R in {3,4,6}: there coalitions are pinned before they are revealed and a stale row shows. One configuration in four pairs an increasing family with the approximate SAM class (hidden game outside the assumed class: crossed bounds, negative gaps - rows are compared sign included). "
        "Non-trivial: R >= 4, some p >= 2 with R > p, continuous generator - or n=5 with R >= 3; distinct = hash of the configuration.")
LEVEL_TEXT = ("Generated configurations, differential over process counts, with an implementation-independent observation channel "
              "(the after_reset callback) for which hidden game each repetition used. Chunkings of the task list are varied through (R, "
              "p); OS scheduling is not controlled and the property does not depend on it.")
LEVEL_NOTE = ("Trusted: fresh-object bounds, vp/oracles.py gaps. One known finding (random solver, process independence) is excluded by "
              "construction for exactly that (solver, sub-claim) pair and reported as KNOWN-FINDING.")
TECHNIQUE = "property-based testing: Hypothesis-generated evaluate() configurations, trajectory replay oracle + differential over worker-process counts"
ASSUMPTIONS = ["graph-weight-distribution families and 'predictible_factory' ignore the seed by design: 'fixed seed' claims are not judged for them",
               "the fork start method (library default on Linux) is used for pools, as in library use without the CLI"]

KNOWN_RANDOM = "random-solver-process-dependent"


class Recorder:
    """Picklable after_reset callback: chains the solver's own after_reset, then records the hidden game."""

    def __init__(self, directory: str, solver):
        self.directory = directory
        self.solver = solver

    def __call__(self, env) -> None:
        self.solver.after_reset(env)
        inner = env.get_wrapper_attr("full_game") if hasattr(env, "get_wrapper_attr") else env.full_game
        vals = [float(x) for x in inner.get_values()]
        with open(os.path.join(self.directory, f"{os.getpid()}.jsonl"), "a") as f:
            f.write(json.dumps(vals) + "\n")


def run_evaluate(cfg: dict, p: int):
    """One evaluate() call as the solve command makes it; returns (gap matrix, action matrix, recorded games)."""
    from incomplete_cooperative.evaluation import evaluate
    from incomplete_cooperative.run.model import ModelInstance
    from incomplete_cooperative.solvers import SOLVERS
    from .. import libgames
    libgames.reseed_module_state(cfg["seed"])
    inst = ModelInstance(number_of_players=cfg["n"], game_class=cfg["computer"], game_generator=cfg["generator"],
                         gap_function=cfg["gap"], run_steps_limit=cfg["limit"], seed=cfg["seed"], parallel_environments=p)
    solver = SOLVERS[cfg["solver"]](inst)
    d = tempfile.mkdtemp(prefix="vp-c12-")
    try:
        limit = inst.run_steps_limit or 2 ** inst.number_of_players
        expl, acts = evaluate(solver.next_step, inst.get_env, cfg["R"], limit, inst.gap_function_callable, p, Recorder(d, solver))
        recs = []
        for fn in sorted(os.listdir(d)):
            with open(os.path.join(d, fn)) as f:
                recs.extend(json.loads(line) for line in f if line.strip())
    finally:
        shutil.rmtree(d, ignore_errors=True)
    return expl, acts, recs, limit


def replay_column(cfg, v, acts_col, limit):
    """Model trajectory of one repetition: gaps row by row and the step index at which the model says 'done'."""
    from .. import repo
    n = cfg["n"]
    mins = minimal_masks(n)
    explorable = [s for s in range(1 << n) if s not in mins]
    K = set(mins)
    rows, tols = [], []

    def gap_now():
        g = repo.new_game(n, cfg["computer"])
        repo.set_knowledge(g, v, K)
        g.compute_bounds()
        _, lo, up = repo.table(g)
        deg = all(u - l == 0 for l, u in zip(lo, up))
        return ref_gap(cfg["gap"], lo, up, n), gap_tol(cfg["gap"], lo, up, n), deg

    g0, t0, deg = gap_now()
    rows.append(g0)
    tols.append(t0)
    done_at = None
    problems = []
    for t in range(limit):
        a = acts_col[t]
        if a != int(a) or int(a) not in explorable:
            problems.append(f"step {t}: id {a!r} is not an explorable coalition")
            break
        a = int(a)
        if a in K:
            problems.append(f"step {t}: coalition {a} revealed twice")
            break
        K.add(a)
        g, tl, deg = gap_now()
        rows.append(g)
        tols.append(tl)
        steps = t + 1
        if (cfg["limit"] is not None and steps >= cfg["limit"]) or len(K) == (1 << n) or deg:
            done_at = t
            break
    return rows, tols, done_at, problems


@guarded
def check_case(case: dict) -> Result:
    import numpy as np
    from .. import libgames
    res = Result()
    cfg = case["cfg"]
    R = cfg["R"]
    continuous = cfg["generator"] in libgames.CONTINUOUS + ["xs2", "xs3"]
    honours_seed = not libgames.ignores_seed(cfg["generator"])
    base = None
    for p in case["procs"]:
        expl, acts, recs, limit = run_evaluate(cfg, p)
        w = f"{cfg['solver']}/{cfg['generator']} n={cfg['n']} seed={cfg['seed']} R={R} limit={cfg['limit']} p={p}"
        if expl.shape != (limit + 1, R) or acts.shape != (limit, R):
            res.fail(f"shape :: {w}: {expl.shape} {acts.shape}")
            break
        if len(recs) != R:
            res.fail(f"recorder :: {w}: {len(recs)} hidden games recorded for {R} repetitions")
            break
        # (1) true trajectories: perfect matching of columns to recorded games
        cand = []
        for j in range(R):
            ok = []
            why = ""
            for r_i, v in enumerate(recs):
                rows, tols, done_at, problems = replay_column(cfg, v, acts[:, j], limit)
                good = not problems
                if good:
                    for t, (g, tl) in enumerate(zip(rows, tols)):
                        if abs(float(expl[t, j]) - g) > tl:
                            good = False
                            why = f"row {t} is {float(expl[t, j])!r}, replay of the recorded actions gives {g!r}"
                            break
                if good:
                    used = len(rows)
                    if done_at is None and used != limit + 1:
                        good = False
                    if good and (np.any(expl[used:, j] != 0) or np.any(acts[used - 1:, j] != 0)):
                        good = False
                        why = f"non-zero entries after the trajectory ended at row {used - 1}"
                elif problems:
                    why = problems[0]
                if good:
                    ok.append(r_i)
            if not ok:
                res.fail(f"not-a-true-trajectory :: {w}: column {j} (actions {acts[:, j].tolist()}) matches no recorded hidden game; {why}")
                break
            cand.append(ok)
        if res.failures:
            break
        if not _perfect_matching(cand, len(recs)):
            res.fail(f"repetitions-share-a-game :: {w}: columns cannot be matched one-to-one to the recorded hidden games")
            break
        # (3) independent repetitions
        distinct = len({tuple(v) for v in recs})
        if continuous and honours_seed and distinct != R:
            res.fail(f"replayed-hidden-games :: {w}: only {distinct} distinct hidden games in {R} repetitions of a continuous generator")
            break
        # (2) process independence
        if p == case["procs"][0]:
            base = (expl.copy(), acts.copy())
        elif honours_seed:
            if cfg["solver"] == "random" and KNOWN_RANDOM in case.get("known_keys", []):
                res.excluded.append(KNOWN_RANDOM)
            elif not (np.array_equal(base[0], expl) and np.array_equal(base[1], acts)):
                bad = [j for j in range(R) if not (np.array_equal(base[0][:, j], expl[:, j]) and np.array_equal(base[1][:, j], acts[:, j]))]
                res.fail(f"process-dependent :: {w}: result differs from processes={case['procs'][0]} in columns {bad[:6]}")
                break
    res.nontrivial = (R >= 4 and any(p >= 2 and R > p for p in case["procs"]) and continuous) or (cfg["n"] >= 5 and R >= 3)
    res.label(f"solver={cfg['solver']}", f"gen={cfg['generator']}", f"n={cfg['n']}", f"R>={R // 6 * 6}", f"procs={case['procs']}")
    return res


def _perfect_matching(cand: list[list[int]], nrec: int) -> bool:
    match = [-1] * nrec

    def try_(j, seen):
        for r in cand[j]:
            if r in seen:
                continue
            seen.add(r)
            if match[r] == -1 or try_(match[r], seen):
                match[r] = j
                return True
        return False
    return all(try_(j, set()) for j in range(len(cand)))


def reproduce_known(entry: dict):
    """Re-run the specific input of the listed known finding."""
    import numpy as np
    if entry["key"] != KNOWN_RANDOM:
        return False, "unknown key"
    cfg = entry["match"]["cfg"]
    e1, a1, _, _ = run_evaluate(cfg, 1)
    e2, a2, _, _ = run_evaluate(cfg, entry["match"]["p"])
    differs = not (np.array_equal(e1, e2) and np.array_equal(a1, a2))
    return differs, entry["what"]


@st.composite
def sam5_cases(draw, known_keys):
    """Five players, approximate SAM bounds, SAM generator families whose integer / tied values pin coalitions before they are
    revealed; order-agnostic solver most of the time.  Few repetitions (the matching replays R x R columns)."""
    solver = draw(st.sampled_from(["random", "random", "random", "greedy_worst", "largest", "greedy"]))
    gen = draw(st.sampled_from(["k_budget_generator", "k_budget_generator", "k_budget_generator", "covg_fn_generator", "covg_fn_generator", "xos2", "xos_norm_additive", "xs2", "xs3"]))
    comp = draw(st.sampled_from(["sam_apx_1", "sam_apx_10", "sam_apx_1", "sam_apx_10", "sam_apx_1", "superadditive_cached"]))
    R = draw(st.sampled_from([3, 4, 6]))
    limit = draw(st.sampled_from([None, None, 12, 20]))
    procs = [1, draw(st.sampled_from([2, 3, 5]))]
    cfg = {"solver": solver, "generator": gen, "n": 5, "computer": comp, "gap": draw(st.sampled_from(["exploitability", "l1_norm", "l2_norm", "linf_norm"])),
           "limit": limit, "seed": draw(st.integers(0, 2**40)), "R": R}
    return {"cfg": cfg, "procs": procs, "known_keys": sorted(known_keys)}


@st.composite
def cases(draw, all_families: bool, known_keys):
    from .. import libgames
    solver = draw(st.sampled_from(["greedy", "greedy_worst", "largest", "random"]))
    if all_families and draw(st.booleans()):
        gen = draw(st.sampled_from([x for x in libgames.names() if x not in ("oxs",)]))
    else:
        # continuous families, among them those that sometimes draw a game whose bounds are tight at minimal information
        # (additive draws of xs2 / xs3 / xos2): such an episode is 'done' right after reset
        gen = draw(st.sampled_from(libgames.CONTINUOUS + ["xs2", "xs2", "xs3", "xos2"]))
    n = draw(st.integers(3, 4))
    comp = "superadditive"
    # one configuration in four pairs an increasing (non-SAM) family with the approximate SAM class - a legal --game-class /
    # --game-generator combination: the hidden game is outside the assumed class, bounds cross and gaps are negative; the
    # recorded rows must still be the gaps of the trajectory, sign included
    mismatch = draw(st.integers(0, 3)) == 0
    if mismatch:
        gen = draw(st.sampled_from(["noisy_factory", "noisy_factory_square", "factory", "factory_cheerleader", "graph_random", "graph_beta_2_3", "noisy_factory_fixed"]))
    if mismatch:
        comp = draw(st.sampled_from(["sam_apx_1", "sam_apx_1", "sam_apx_10"]))
    elif gen in libgames.SAM_FAMILIES:
        comp = draw(st.sampled_from(["superadditive", "superadditive_cached", "sam_apx_1"]))
    else:
        comp = draw(st.sampled_from(["superadditive", "superadditive_cached"]))
    R = draw(st.sampled_from([12, 8, 24, 5, 7, 4, 17, 3, 2, 1]))
    limit = draw(st.sampled_from([None, 1, 2, 3, 5]))
    procs = [1] + sorted(draw(st.lists(st.sampled_from(PROCS[1:]), min_size=1, max_size=2, unique=True)))
    cfg = {"solver": solver, "generator": gen, "n": n, "computer": comp, "gap": draw(st.sampled_from(["exploitability", "l1_norm", "l2_norm", "linf_norm"])),
           "limit": limit, "seed": draw(st.integers(0, 2**40)), "R": R}
    return {"cfg": cfg, "procs": procs, "known_keys": sorted(known_keys)}


def plan(tier: str) -> list[dict]:
    if tier == "quick":
        return [{"examples": 6, "all_families": False, "cost": 6} for _ in range(6)] + [{"examples": 5, "sam5": True, "cost": 6} for _ in range(5)]
    return [{"examples": 90, "all_families": True, "cost": 12} for _ in range(12)] + [{"examples": 40, "sam5": True, "cost": 12} for _ in range(4)]


def run_shard(spec: dict, ctx: Ctx) -> None:
    if spec.get("sam5"):
        ctx.run_given(sam5_cases(ctx.known_keys), check_case, spec["examples"], shrink=False)
        return
    ctx.run_given(cases(spec["all_families"], ctx.known_keys), check_case, spec["examples"], shrink=False)
