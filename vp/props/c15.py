"""C15  Normalisation maps superadditive games into [0,1] and is invertible."""
from __future__ import annotations

from fractions import Fraction

from hypothesis import strategies as st

from ..core import EPS, Ctx, Result, guarded
from ..games import build_superadditive, superadditive_games
from ..oracles import is_sa, members, popcount

ID = "C15"
LEVEL = "exploration"
RULE = ("Hypothesis over five input classes: (a) exact int/dyadic superadditive games incl. exactly additive and NEARLY additive ones "
        "(surplus >= 2^-30 of the scale, exactly representable); (b) float superadditive games with relative surplus >= 1e-6; (c) "
        "games additive by construction in float arithmetic (sums of float weights in the library's summation order, library "
        "'additive' generator, xos*/oxs at small n) whose surplus is a pure rounding residue; (d) every registered generator family; "
        "(e) graph games (non-negative weights incl. all-zero and single-edge) together with their tabulated form. Oracle: exact "
        "rational normalisation w(S) = (v(S) - sum of singletons)/surplus: singletons exactly 0, values == w within cond*64*n*eps "
        "and inside [0,1] by that margin, grand == 1, additive -> all ~0, result superadditive, graph == table within 1e-12, "
        "denormalize restores the original within 1e-9*scale. Non-trivial: not all normalised values in {0,1}; float-additive "
        "cases are counted separately. A genuine surplus below 1e-9 of the scale in a float game (undecidable 'additive') is "
        "deliberately not generated.")
LEVEL_TEXT = ("Generated-input search against exact rational arithmetic on the stored doubles, with input classes built to reach the "
              "additive / nearly-additive boundary that unit tests miss. Exploration over games; no proof.")
LEVEL_NOTE = ("Trusted: Fraction arithmetic, harness constructions. Tolerances derive from the condition number scale/surplus. The grey "
              "zone (true surplus between rounding residue ~1e-15 and 1e-9 of the scale) is excluded by construction.")
TECHNIQUE = "property-based testing: Hypothesis-generated games in boundary-targeting classes vs exact rational normalisation oracle + round trip (denormalize)"
ASSUMPTIONS = ["inputs are exactly superadditive (a subset of what the library's tolerant predicate accepts)",
               "graph games have non-negative weights"]


def exact_norm(v, n):
    """(surplus, singles, w) in exact rational arithmetic on the stored doubles."""
    fv = [Fraction(x) for x in v]
    singles = [fv[1 << i] for i in range(n)]
    surplus = fv[(1 << n) - 1] - sum(singles)
    base = [fv[s] - sum(singles[i] for i in members(s)) for s in range(1 << n)]
    w = [b / surplus for b in base] if surplus != 0 else base
    return surplus, singles, base, w


def norm_oracle(v, n):
    """What normalisation of the value table v must give, independent of the library: (mode, exact normalised values, tolerance).
    mode: 'additive-exact' / 'additive-residue' (all zeros expected), 'surplus' ((v - singles) / surplus), 'grey-zone' (not judged)."""
    size = 1 << n
    surplus, singles, base, w = exact_norm(v, n)
    mag = abs(Fraction(v[size - 1])) + sum(abs(x) for x in singles)
    rel = abs(surplus) / mag if mag else Fraction(0)
    if surplus == 0:
        return "additive-exact", [0.0] * size, 64 * n * EPS * max(float(mag), 1e-300)
    if rel <= Fraction(16 * n) * Fraction(EPS):
        return "additive-residue", [0.0] * size, 64 * n * EPS * max(float(mag), 1e-300)
    if rel < Fraction(1, 10 ** 9):
        return "grey-zone", None, None
    cond = float(mag / abs(surplus))
    return "surplus", [float(x) for x in w], cond * 64 * n * EPS


@st.composite
def cases(draw, max_n: int):
    from .. import libgames
    cls = draw(st.sampled_from(["exact", "exact-additive", "nearly-additive", "float", "float-additive", "lib", "lib-additive", "graph"]))
    n = draw(st.sampled_from([2] + list(range(3, max_n + 1)) * 2))     # two-player games are games too
    size = 1 << n
    if n == 2 and cls in ("lib", "lib-additive", "graph"):
        cls = "exact"
    if cls == "exact":
        g = draw(superadditive_games(n, n, classes=("int", "dyadic")))
        return {"cls": cls, "n": n, "game": {"kind": "table", "n": n, "v": g["v"]}}
    if cls == "exact-additive":
        a = draw(st.lists(st.integers(-40, 40), min_size=n, max_size=n))
        k = draw(st.integers(0, 10))
        v = [sum(a[i] for i in members(s)) * 2.0 ** -k for s in range(size)]
        return {"cls": cls, "n": n, "game": {"kind": "table", "n": n, "v": v}}
    if cls == "nearly-additive":
        a = draw(st.lists(st.integers(-(2 ** 12), 2 ** 12), min_size=n, max_size=n))
        sur = draw(st.lists(st.one_of(st.just(0), st.integers(0, 6)), min_size=size, max_size=size))
        z = build_superadditive(n, [0] * n, sur)
        if z[size - 1] == 0:
            z[size - 1] = 1
        m = draw(st.integers(0, 14))       # surplus >= 2^-14 against singles <= 2^12*n: relative >= 2^-29
        v = [sum(a[i] for i in members(s)) + z[s] * 2.0 ** -m for s in range(size)]
        return {"cls": cls, "n": n, "game": {"kind": "table", "n": n, "v": v}}
    if cls == "float":
        g = draw(superadditive_games(n, n, classes=("float",)))
        return {"cls": cls, "n": n, "game": {"kind": "table", "n": n, "v": g["v"]}}
    if cls == "float-additive":
        w = draw(st.lists(st.floats(0.001, 1000.0, allow_nan=False), min_size=n, max_size=n))
        sign = draw(st.sampled_from([1.0, -1.0]))
        v = [0.0] * size
        for i in range(n):               # the library's own summation order (generators.additive)
            for s in range(size):
                if s >> i & 1:
                    v[s] += sign * w[i]
        return {"cls": cls, "n": n, "game": {"kind": "table", "n": n, "v": v}}
    if cls == "lib":
        name = draw(st.sampled_from(libgames.names()))
        if name in ("oxs", "covg_fn_generator"):
            n = min(n, 5)
        return {"cls": cls, "n": n, "game": libgames.lib_spec(name, n, draw(st.integers(0, 2**31)))}
    if cls == "lib-additive":
        name = draw(st.sampled_from(["oxs", "xos2", "xos3", "xos", "xos2_norm_additive"]))
        n = draw(st.integers(3, 4))
        return {"cls": cls, "n": n, "game": libgames.lib_spec(name, n, draw(st.integers(0, 2**31)))}
    # graph
    kind = draw(st.sampled_from(["random", "random", "zero", "single-edge", "ints"]))
    if kind == "zero":
        m = [[0.0] * n for _ in range(n)]
    elif kind == "single-edge":
        m = [[0.0] * n for _ in range(n)]
        i, j = sorted(draw(st.lists(st.integers(0, n - 1), min_size=2, max_size=2, unique=True)))
        m[i][j] = draw(st.floats(0.001, 100.0, allow_nan=False))
    elif kind == "ints":
        m = [[float(draw(st.integers(0, 9))) for _ in range(n)] for _ in range(n)]
    else:
        m = [[draw(st.floats(0.0, 10.0, allow_nan=False, allow_subnormal=False)) for _ in range(n)] for _ in range(n)]
    for i in range(n):
        for j in range(i + 1):
            m[i][j] = 0.0                # what GraphCooperativeGame keeps anyway
    return {"cls": "graph", "n": n, "game": {"kind": "graph", "n": n, "matrix": m}}


@guarded
def check_case(case: dict) -> Result:
    import numpy as np
    from incomplete_cooperative.normalize import denormalize_game, normalize_game
    from .. import libgames, repo
    res = Result()
    n, spec = case["n"], case["game"]
    size = 1 << n
    v = libgames.spec_values(spec)
    scale = max([abs(x) for x in v] + [1e-300])
    if not is_sa(v, n, 1e-9 * scale):
        res.label("input-not-superadditive(skipped)")
        return res
    surplus, singles, base, w = exact_norm(v, n)
    mag = abs(Fraction(v[size - 1])) + sum(abs(x) for x in singles)
    rel = abs(surplus) / mag if mag else Fraction(0)
    if surplus == 0:
        mode = "additive-exact"
    elif rel <= Fraction(16 * n) * Fraction(EPS):
        mode = "additive-residue"
    elif rel < Fraction(1, 10 ** 9):
        res.label("grey-zone(skipped)")
        return res
    else:
        mode = "surplus"
    game = libgames.spec_game(spec)
    original = [float(x) for x in game.get_values()]
    info = normalize_game(game)
    got = [float(x) for x in game.get_values()]
    w_ = f"{case['cls']} n={n} mode={mode}"
    if mode == "surplus":
        cond = float(mag / abs(surplus))
        tol = cond * 64 * n * EPS
        for s in range(size):
            if abs(got[s] - float(w[s])) > tol * max(1.0, abs(float(w[s]))):
                res.fail(f"value :: {w_}: coalition {s} normalised to {got[s]!r}, exact (v - singles)/surplus = {float(w[s])!r} (tol {tol:.3g})")
                break
            if got[s] < -tol or got[s] > 1 + tol:
                res.fail(f"outside-[0,1] :: {w_}: coalition {s} normalised to {got[s]!r}")
                break
        if abs(got[size - 1] - 1.0) > tol:
            res.fail(f"grand!=1 :: {w_}: {got[size - 1]!r}")
        sa_tol = 4 * tol
    else:
        tol = 64 * n * EPS * max(float(mag), 1e-300)
        for s in range(size):
            if abs(got[s]) > tol:
                res.fail(f"additive-not-zero :: {w_}: coalition {s} normalised to {got[s]!r} (game is additive up to rounding; scale {float(mag):.3g})")
                break
        sa_tol = 4 * tol
    if spec["kind"] == "table":
        for i in range(n):
            if got[1 << i] != 0.0:
                res.fail(f"singleton-nonzero :: {w_}: player {i} -> {got[1 << i]!r}")
    if not res.failures and not is_sa(got, n, sa_tol):
        res.fail(f"normalised-not-superadditive :: {w_}")
    # a graph game owns its weights: normalising one game must not change another game built from the same array, nor the array
    if spec["kind"] == "graph":
        from incomplete_cooperative.graph_game import GraphCooperativeGame
        arr = np.array(spec["matrix"], dtype=float)
        keep = arr.copy()
        first, second = GraphCooperativeGame(arr), GraphCooperativeGame(arr)
        normalize_game(first)
        if not np.array_equal(arr, keep):
            res.fail(f"graph-game-aliases-caller-array :: {w_}: normalising a graph game changed the weight matrix it was constructed from")
        sv = [float(x) for x in second.get_values()]
        if any(abs(a - b) > 1e-12 * max(scale, 1.0) for a, b in zip(sv, original)):
            res.fail(f"graph-games-share-weights :: {w_}: normalising one graph game changed another one built from the same matrix")
    # graph vs tabulated form
    if spec["kind"] == "graph":
        tab = repo.full_game(n, original)
        normalize_game(tab)
        tv = [float(x) for x in tab.get_values()]
        if any(abs(a - b) > 1e-12 for a, b in zip(tv, got)):
            bad = [s for s in range(size) if abs(tv[s] - got[s]) > 1e-12][:3]
            res.fail(f"graph!=table :: {w_}: coalitions {bad}: graph {[got[s] for s in bad]} table {[tv[s] for s in bad]}")
    # round trip
    denormalize_game(game, info)
    back = [float(x) for x in game.get_values()]
    if any(abs(a - b) > 1e-9 * max(scale, 1.0) for a, b in zip(back, original)):
        bad = [s for s in range(size) if abs(back[s] - original[s]) > 1e-9 * max(scale, 1.0)][:3]
        res.fail(f"denormalize :: {w_}: coalitions {bad}: restored {[back[s] for s in bad]} original {[original[s] for s in bad]}")
    res.nontrivial = any(x not in (0.0, 1.0) for x in got) or mode == "additive-residue"
    res.label(f"cls={case['cls']}", f"mode={mode}", f"n={n}")
    return res


def _sample(case):
    c = dict(case)
    g = dict(case["game"])
    if "v" in g and len(g["v"]) > 16:
        g["v"] = g["v"][:16] + ["..."]
    c["game"] = g
    return c


def plan(tier: str) -> list[dict]:
    if tier == "quick":
        return [{"max_n": 5, "examples": 800, "cost": 3} for _ in range(4)] + [{"max_n": 6, "examples": 150, "cost": 3}]
    return ([{"max_n": 5, "examples": 40000, "cost": 10} for _ in range(12)] + [{"max_n": 7, "examples": 4000, "cost": 10} for _ in range(4)])


def run_shard(spec: dict, ctx: Ctx) -> None:
    ctx.run_given(cases(spec["max_n"]), check_case, spec["examples"], sample_of=_sample)
