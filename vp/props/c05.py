"""C05  Exploitability = summed best-case Shapley gain = binomially weighted gap."""
from __future__ import annotations

import math
from fractions import Fraction

from hypothesis import strategies as st

from ..core import EPS, Ctx, Result, guarded
from ..oracles import exploitability_exact, popcount, shapley_exact

ID = "C05"
LEVEL = "exploration"
RULE = ("(i) Exhaustive coefficient extraction: exploitability is linear in (lower, upper); for each n the check feeds all "
        "2*2^n unit boxes (through IncompleteCooperativeGame's public setters and through a bare protocol stand-in) and the "
        "coefficient of every lower(S)/upper(S) must be -/+ 1/C(n,|S|). (ii) Hypothesis: boxes (lower vector + non-negative "
        "widths; int/dyadic/float; v(empty)=0, grand coalition known) for n=2..9: value == exact rational weighted gap, == sum "
        "of per-player maximal Shapley values (independent orderings oracle, n<=7) - v(N); sign / zero claims; Shapley value "
        "of drawn completions inside the box never exceeds the per-player maximum; the max-gain game of every player (n<=6) read as a whole table, as a coalition list and coalition by coalition is the vertex upper-with-player / lower-without, reading it changes neither the bounds nor a subsequent exploitability. (iii) the gap functions as selected BY NAME (GAP_FUNCTIONS, ModelInstance.gap_function_callable) on arbitrary real bound vectors, crossed bounds included, against the definitions. Non-trivial: >= 3 different widths with "
        "at least one 0 and one > 0; distinct = hash of the box.")
LEVEL_TEXT = ("The linear map is decided completely for each n by enumerating its basis (exhaustive for the listed n), and "
              "linearity/identities are explored on generated boxes against exact rational arithmetic. 'Proved for each n' in the "
              "statement is replaced here by exhaustive coefficient extraction plus random linearity tests - the PBT analogue.")
LEVEL_NOTE = ("Trusted: Fraction arithmetic, the n! orderings definition of the Shapley value in vp/oracles.py. Float comparison "
              "tolerance 2*n*2^n*eps*scale (twice the classical worst-case bound for the n*2^(n-1) weighted terms). Basis n<=6 quick, n<=8 thorough.")
TECHNIQUE = "property-based testing: exhaustive basis enumeration of a linear map + Hypothesis-generated boxes vs exact rational oracle"
ASSUMPTIONS = [
    "compute_exploitability is evaluated in float64; equality is judged within 2*n*2^n*eps*max|bound|",
    "the grand coalition is known (lower=upper) and v(empty)=0, as the statement requires",
]


class StandIn:
    """Only what the IncompleteGame protocol needs for exploitability; no table, no setters."""

    def __init__(self, n, lower, upper):
        import numpy as np
        self.number_of_players = n
        self._lo = np.array(lower, dtype=float)
        self._up = np.array(upper, dtype=float)

    def get_upper_bounds(self, coalitions=None):
        return self._up if coalitions is None else self._up[[c.id for c in coalitions]]

    def get_lower_bounds(self, coalitions=None):
        return self._lo if coalitions is None else self._lo[[c.id for c in coalitions]]

    def get_upper_bound(self, c):
        return self._up[c.id]

    def get_lower_bound(self, c):
        return self._lo[c.id]

    def get_value(self, c):
        assert self._lo[c.id] == self._up[c.id]
        return self._up[c.id]

    def get_values(self, coalitions=None):
        return self.get_upper_bounds(coalitions)

    def copy(self):  # protocol members that isinstance(Game) looks for
        raise NotImplementedError

    def __add__(self, other):
        raise NotImplementedError


def build_icg(n, lower, upper):
    """The same box through the public API of IncompleteCooperativeGame."""
    import numpy as np
    from .. import repo
    g = repo.new_game(n)
    full = (1 << n) - 1
    g.set_known_values([0.0, upper[full]], repo.coals([0, full]))
    g.set_lower_bounds(np.array(lower, dtype=float))
    g.set_upper_bounds(np.array(upper, dtype=float))
    return g


@st.composite
def boxes(draw, max_n: int, min_n: int = 2):
    n = draw(st.integers(min_n, max_n))
    cls = draw(st.sampled_from(["int", "dyadic", "float"]))
    size = 1 << n
    if cls == "float":
        lo = draw(st.lists(st.floats(-1000, 1000, allow_nan=False, allow_subnormal=False), min_size=size, max_size=size))
        wd = draw(st.lists(st.one_of(st.just(0.0), st.floats(0.015625, 64, allow_nan=False)), min_size=size, max_size=size))
    else:
        lo = draw(st.lists(st.integers(-1024, 1024), min_size=size, max_size=size))
        wd = draw(st.lists(st.one_of(st.just(0), st.integers(0, 64)), min_size=size, max_size=size))
        if cls == "dyadic":
            k = draw(st.integers(1, 6))
            lo = [x * 2.0 ** -k for x in lo]
            wd = [x * 2.0 ** -k for x in wd]
    mode = draw(st.sampled_from(["mixed", "mixed", "mixed", "all-zero", "one-wide", "huge-narrow", "tiny-widths"]))
    if mode == "huge-narrow":
        # large magnitudes with small non-zero widths: every interval is 'nearly' degenerate relative to its values
        mag = draw(st.sampled_from([2.0 ** 20, 2.0 ** 24, 2.0 ** 30]))
        lo = [float(draw(st.integers(-16, 16))) * mag for _ in range(size)]
        wd = [float(draw(st.sampled_from([0, 1, 2, 4, 8]))) for _ in range(size)]
        cls = "int"
    elif mode == "tiny-widths":
        lo = [0.0] * size if draw(st.booleans()) else [float(x) for x in lo]
        tiny = draw(st.sampled_from([2.0 ** -30, 2.0 ** -40, 1e-9]))
        wd = [tiny * draw(st.integers(0, 3)) for _ in range(size)]
        if cls == "float" or any(abs(x) > 4096 for x in lo):
            lo = [0.0] * size
    if mode == "all-zero":
        wd = [0] * size
    elif mode == "one-wide":
        j = draw(st.integers(1, size - 2)) if size > 2 else 0
        wd = [w if i == j else 0 for i, w in enumerate(wd)]
    lo = [float(x) for x in lo]
    wd = [float(x) for x in wd]
    lo[0] = 0.0
    wd[0] = 0.0
    wd[size - 1] = 0.0
    up = [a + b for a, b in zip(lo, wd)]
    wd = [u - l for l, u in zip(lo, up)]   # the widths actually representable
    ncomp = draw(st.integers(0, 2)) if n <= 7 else 0
    comps = [draw(st.lists(st.integers(0, 4), min_size=size, max_size=size)) for _ in range(ncomp)]
    return {"kind": "box", "n": n, "cls": cls, "lower": lo, "upper": up, "completions": comps, "via": draw(st.sampled_from(["icg", "standin"]))}


def _tol(n, lower, upper):
    """float64 evaluation: n Shapley sums of 2^(n-1) terms whose absolute values sum to at most 2*scale (the weights of one
    player sum to 1); the classical bound (m-1)*eps*sum|terms| gives 2^n*eps*scale per player, n*2^n*eps*scale in total.
    Twice that worst case is used: sound, and still three orders of magnitude below single-precision effects."""
    scale = max([abs(x) for x in lower] + [abs(x) for x in upper] + [1.0])
    return 2 * n * (1 << n) * EPS * scale


def _check_registry(case: dict) -> Result:
    """The gap functions as users select them by name (GAP_FUNCTIONS / ModelInstance.gap_function_callable) on arbitrary real
    bound vectors - crossed ones (lower > upper) included: the formulas are stated for all real vectors."""
    from incomplete_cooperative.run.model import GAP_FUNCTIONS, ModelInstance
    from ..oracles import ref_gap, gap_tol
    res = Result()
    n, lo, up = case["n"], case["lower"], case["upper"]
    obj = _icg_raw_any(n, lo, up)
    for name in ("exploitability", "l1_norm", "l2_norm", "linf_norm"):
        want = ref_gap(name, lo, up, n)
        tol = max(gap_tol(name, lo, up, n), _tol(n, lo, up))
        for how, fn in (("GAP_FUNCTIONS", GAP_FUNCTIONS[name]), ("ModelInstance", ModelInstance(number_of_players=n, gap_function=name).gap_function_callable)):
            got = float(fn(obj))
            if abs(got - want) > tol:
                res.fail(f"registered-gap!=definition :: {how}[{name!r}] on n={n}: {got!r}, definition gives {want!r}")
    crossed = any(l > u for l, u in zip(lo, up))
    res.nontrivial = crossed and ref_gap("exploitability", lo, up, n) < 0
    res.label(f"n={n}", "registry", "crossed" if crossed else "ordered")
    return res


def _icg_raw_any(n, lo, up):
    from .. import repo
    g = repo.new_game(n)
    full = (1 << n) - 1
    g.set_known_values([0.0, up[full]], repo.coals([0, full]))
    for s in range(1, full):
        g.set_lower_bound(lo[s], repo.coal(s))
        g.set_upper_bound(up[s], repo.coal(s))
    return g


@st.composite
def registry_boxes(draw):
    n = draw(st.integers(2, 5))
    size = 1 << n
    lo = [float(x) for x in draw(st.lists(st.integers(-32, 32), min_size=size, max_size=size))]
    wd = [float(x) for x in draw(st.lists(st.integers(-8, 16), min_size=size, max_size=size))]     # negative width = crossed bounds
    if draw(st.booleans()):
        wd = [-abs(w) for w in wd]
    lo[0] = wd[0] = 0.0
    wd[size - 1] = 0.0
    return {"kind": "registry", "n": n, "lower": lo, "upper": [a + b for a, b in zip(lo, wd)]}


def _check_big(case: dict) -> Result:
    """n = 15, 16: beyond the sizes where every factorial weight is exactly representable in single precision; integer boxes
    from a seed, exact rational oracle, the tight float64 tolerance."""
    import random
    from incomplete_cooperative.exploitability import compute_exploitability
    res = Result()
    n, seed = case["n"], case["seed"]
    rng = random.Random(seed)
    size = 1 << n
    lo = [float(rng.randint(-1000, 1000)) for _ in range(size)]
    wd = [float(rng.choice([0, 0, 1, 3, 8])) for _ in range(size)] if case["mode"] == "box" else [0.0] * size
    lo[0] = wd[0] = 0.0
    wd[size - 1] = 0.0
    up = [a + b for a, b in zip(lo, wd)]
    got = float(compute_exploitability(StandIn(n, lo, up)))
    want = float(exploitability_exact(lo, up, n))
    tol = _tol(n, lo, up)
    if abs(got - want) > tol:
        res.fail(f"!=weighted-gap :: n={n} ({case['mode']}): got {got!r}, exact {want!r}, difference {got - want:.3g} (tolerance {tol:.3g})")
    res.nontrivial = True
    res.label(f"big n={n}", case["mode"])
    return res


@guarded
def check_case(case: dict) -> Result:
    if case["kind"] == "basis":
        return _check_basis(case)
    if case["kind"] == "big":
        return _check_big(case)
    if case["kind"] == "registry":
        return _check_registry(case)
    from incomplete_cooperative.exploitability import compute_exploitability
    res = Result()
    n, lo, up = case["n"], case["lower"], case["upper"]
    size = 1 << n
    obj = build_icg(n, lo, up) if case["via"] == "icg" else StandIn(n, lo, up)
    if n <= 8 and case.get("warm", True):
        # ordinary use of the package: somebody computed a Shapley value for a game of this size earlier in the process
        from incomplete_cooperative.shapley import compute_shapley_value
        from .. import repo
        list(compute_shapley_value(repo.full_game(n, [float(s % 5) for s in range(size)])))
    got = float(compute_exploitability(obj))
    tol = _tol(n, lo, up)
    exact = exploitability_exact(lo, up, n)
    if abs(got - float(exact)) > tol:
        res.fail(f"!=weighted-gap :: n={n} via {case['via']}: got {got!r}, sum (u-l)/C(n,|S|) = {float(exact)!r} (tol {tol:.3g})")
    widths = [u - l for l, u in zip(lo, up)]
    # (2) sum of per-player maxima minus v(N), independent Shapley
    maxima = None
    if n <= 7:
        maxima = []
        for i in range(n):
            vert = [up[s] if s >> i & 1 else lo[s] for s in range(size)]
            maxima.append(shapley_exact(vert, n)[i])
        alt = sum(maxima) - Fraction(up[size - 1])
        if abs(got - float(alt)) > tol:
            res.fail(f"!=sum-of-max-shapley :: n={n}: got {got!r}, sum_i max phi_i - v(N) = {float(alt)!r}")
    # (2b) 'the per-player maximum used': the max-gain game of player i is the vertex upper-on-S-with-i / lower elsewhere,
    # whichever way it is asked (whole table, a list of coalitions, one coalition), asking is a pure query (bounds of the
    # underlying game unchanged), and the exploitability is the same afterwards
    if n <= 6 and case.get("maxgain", True):
        import numpy as np
        from incomplete_cooperative.exploitability import MaxGainGame
        from .. import repo
        before = ([float(x) for x in obj.get_lower_bounds()], [float(x) for x in obj.get_upper_bounds()])
        order = case.get("maxgain_order") or list(range(n))
        for i in order:
            mg = MaxGainGame(obj, i)
            vert = [float(up[s]) if s >> i & 1 else float(lo[s]) for s in range(size)]
            whole = [float(x) for x in mg.get_values()]
            some_ids = [s for s in range(size) if (s * 7 + i) % 3 != 0]
            some = [float(x) for x in mg.get_values(repo.coals(some_ids))]
            single = [float(mg.get_value(c)) for c in repo.coals(list(range(size)))]
            if whole != vert or single != vert or some != [vert[s] for s in some_ids]:
                res.fail(f"max-gain-game :: n={n} player {i}: values are not upper(S) for S containing the player and lower(S) otherwise "
                         f"(whole table ok: {whole == vert}, coalition list ok: {some == [vert[s] for s in some_ids]}, single ok: {single == vert})")
                break
        after = ([float(x) for x in obj.get_lower_bounds()], [float(x) for x in obj.get_upper_bounds()])
        if after != before:
            res.fail(f"max-gain-query-mutates-game :: n={n} via {case['via']}: bounds of the underlying game changed by querying MaxGainGame values")
        again = float(compute_exploitability(obj))
        if again != got and not res.failures:
            res.fail(f"exploitability-changes-after-query :: n={n}: {got!r} before, {again!r} after querying the max-gain games")
        res.label("max-gain-queried")
    # (3) sign and zero
    if got < -tol:
        res.fail(f"negative :: n={n}: exploitability {got!r} with lower <= upper everywhere")
    if all(w == 0 for w in widths):
        res.label("all-degenerate")
        if abs(got) > tol:
            res.fail(f"nonzero-on-degenerate-box :: n={n}: {got!r}")
    else:
        limit = max(widths) / math.comb(n, n // 2)
        if limit > 10 * tol:
            res.label("positivity-judged")
            if got < limit - tol:
                res.fail(f"too-small :: n={n}: {got!r} < largest width / C(n,n/2) = {limit!r}")
    # (4) domination
    if maxima is not None:
        for comp in case["completions"]:
            w = [lo[s] + (up[s] - lo[s]) * (c / 4) if c not in (0, 4) else (lo[s] if c == 0 else up[s]) for s, c in enumerate(comp)]
            w = [min(max(x, lo[s]), up[s]) for s, x in enumerate(w)]
            phi = shapley_exact(w, n)
            for i in range(n):
                if phi[i] > maxima[i] + Fraction(tol):
                    res.fail(f"completion-beats-max :: player {i}: phi {float(phi[i])!r} > max {float(maxima[i])!r}")
            res.label("completion")
    distinct_w = len(set(widths))
    res.nontrivial = distinct_w >= 3 and any(w == 0 for w in widths[1:-1] or [1]) and any(w > 0 for w in widths)
    res.label(f"n={n}", f"cls={case['cls']}", f"via={case['via']}")
    return res


def _check_basis(case: dict) -> Result:
    """All 2*2^n unit boxes of one n: read off every coefficient."""
    from incomplete_cooperative.exploitability import compute_exploitability
    res = Result()
    n = case["n"]
    size = 1 << n
    count = 0
    for via in ("standin", "icg"):
        for which in ("lower", "upper"):
            for s in range(1, size - 1):          # empty and grand coalition are known: width 0 by the statement
                lo = [0.0] * size
                up = [0.0] * size
                (lo if which == "lower" else up)[s] = 1.0
                obj = StandIn(n, lo, up) if via == "standin" else _icg_raw(n, lo, up)
                got = float(compute_exploitability(obj))
                want = (1.0 if which == "upper" else -1.0) / math.comb(n, popcount(s))
                count += 1
                if abs(got - want) > 8 * EPS:
                    res.fail(f"coefficient :: n={n} via {via}: coefficient of {which}({s}) is {got!r}, expected {want!r}")
        # grand coalition: known value x -> u(N) coefficient 1 cancels against -v(N)
        lo = [0.0] * size
        up = [0.0] * size
        lo[size - 1] = up[size - 1] = 1.0
        obj = StandIn(n, lo, up) if via == "standin" else _icg_raw(n, lo, up)
        got = float(compute_exploitability(obj))
        count += 1
        if abs(got) > 8 * EPS:
            res.fail(f"coefficient :: n={n} via {via}: a known grand coalition value contributes {got!r}, expected 0")
    res.nontrivial = True
    res.label(f"basis n={n}")
    res.labels.append(f"unit-boxes={count}")
    return res


def _icg_raw(n, lo, up):
    """Unit boxes need lower > upper for the lower basis vectors: scalar setters on unknown rows."""
    from .. import repo
    g = repo.new_game(n)
    full = (1 << n) - 1
    g.set_known_values([0.0, up[full]], repo.coals([0, full]))
    for s in range(1, full):
        if lo[s]:
            g.set_lower_bound(lo[s], repo.coal(s))
        if up[s]:
            g.set_upper_bound(up[s], repo.coal(s))
    return g


def _sample(case):
    if case["kind"] == "basis":
        return case
    c = dict(case)
    if case["n"] > 4:
        c["lower"] = case["lower"][:12] + ["..."]
        c["upper"] = case["upper"][:12] + ["..."]
        c["completions"] = len(case["completions"])
    return c


def plan(tier: str) -> list[dict]:
    if tier == "quick":
        return ([{"mode": "basis", "ns": [2, 3, 4, 5], "cost": 1}, {"mode": "basis", "ns": [6], "cost": 2}]
                + [{"mode": "boxes", "max_n": 7, "examples": 400, "cost": 3} for _ in range(4)]
                + [{"mode": "boxes", "max_n": 9, "min_n": 8, "examples": 20, "cost": 3}, {"mode": "registry", "examples": 150, "cost": 4},
                   {"mode": "big", "cases": [{"kind": "big", "n": 15, "seed": 1, "mode": "box"}, {"kind": "big", "n": 15, "seed": 2, "mode": "degenerate"}], "cost": 4}])
    return ([{"mode": "basis", "ns": [2, 3, 4, 5, 6], "cost": 2}, {"mode": "basis", "ns": [7], "cost": 4}, {"mode": "basis", "ns": [8], "cost": 10}]
            + [{"mode": "boxes", "max_n": 7, "examples": 1500, "cost": 8} for _ in range(9)]
            + [{"mode": "boxes", "max_n": 9, "min_n": 8, "examples": 150, "cost": 8} for _ in range(3)] + [{"mode": "registry", "examples": 4000, "cost": 8}]
            + [{"mode": "big", "cases": [{"kind": "big", "n": n_, "seed": s_, "mode": m_} for n_ in (15, 16) for s_ in (1, 2) for m_ in ("box", "degenerate")], "cost": 10}])


def run_shard(spec: dict, ctx: Ctx) -> None:
    if spec["mode"] == "basis":
        for n in spec["ns"]:
            case = {"kind": "basis", "n": n}
            ctx.judge_enum(case, check_case(case))
        ctx.extra["exhaustive_parts"] = [f"all unit boxes (coefficients of every lower(S), upper(S)) for n in {spec['ns']}, two object kinds"]
        return
    if spec["mode"] == "registry":
        ctx.run_given(registry_boxes(), check_case, spec["examples"])
        return
    if spec["mode"] == "big":
        for case in spec["cases"]:
            case = dict(case, seed=case["seed"] + 1000 * ctx.base_seed)
            ctx.judge_enum(case, check_case(case))
        return
    ctx.run_given(boxes(spec["max_n"], spec.get("min_n", 2)), check_case, spec["examples"], sample_of=_sample)
