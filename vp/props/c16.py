"""C16  The size-aggregated environment is a faithful abstraction of the full one."""
from __future__ import annotations

from hypothesis import strategies as st

from ..core import Ctx, Result, guarded
from ..games import sam_games, superadditive_games
from ..oracles import minimal_masks, popcount

ID = "C16"
LEVEL = "exploration"
RULE = ("Hypothesis: ICG_Gym_Linear(ICG_Gym(...)), n=3..6, hidden games from harness constructions and registered families; a "
        "sequence of drawn sizes, each mapped onto the currently allowed ones, until done, with interleaved reset(); the global "
        "numpy generator (the wrapper's tie-break source) is seeded per case. Model = the inner environment's knowledge. The wrapper's mask is queried before some steps only (drawn pattern: always / never / every other ...); when queried "
        "the mask must allow size k iff some explorable coalition of size k is unknown; a step reveals exactly one "
        "previously unknown coalition of that size and reports it; reward/done equal the inner environment's; the observation "
        "(returned and .state, after reset and every step) has length n and equals the per-size sum of the inner observation "
        "(own summation). Non-trivial: sequence uses >= 2 sizes and exhausts at least one size; distinct = hash of the case.")
LEVEL_TEXT = ("Model-based generated histories over sizes with the wrapper's random tie-breaks under harness control (seeded global "
              "numpy RNG); every step is compared with the inner environment's knowledge before/after. Exploration, no proof.")
LEVEL_NOTE = "Trusted: the inner environment (checked in C09). n<=6. Tie-breaks are sampled (seeded), not enumerated."
TECHNIQUE = "property-based testing: Hypothesis-generated size sequences with seeded tie-breaks vs inner-environment model"
ASSUMPTIONS = ["initial knowledge is the minimal information (as ModelInstance.get_env builds it)", "numpy.random.seed(case seed) fixes the wrapper's tie-breaks"]


@st.composite
def cases(draw, n_min: int, n_max: int):
    from .. import libgames
    n = draw(st.integers(n_min, n_max))
    src = draw(st.sampled_from(["sa", "sam", "lib", "lib"]))
    if src == "sa":
        g = draw(superadditive_games(n, n))
        spec = {"kind": "table", "n": n, "v": g["v"], "how": "harness-sa"}
        comp = "superadditive_cached"
    elif src == "sam":
        g = draw(sam_games(n, n))
        spec = {"kind": "table", "n": n, "v": g["v"], "how": "harness-sam"}
        comp = draw(st.sampled_from(["sam_apx_1", "superadditive_cached"]))
    else:
        name = draw(st.sampled_from(["factory", "noisy_factory", "graph_random", "graph_cycle", "xos", "oxs", "k_budget_generator",
                                     "covg_fn_generator", "factory_cheerleader_next", "graph_beta_2_3"]))
        spec = libgames.lib_spec(name, min(n, 5) if name in ("oxs", "covg_fn_generator") else n, draw(st.integers(0, 2**31)))
        n = spec["n"]
        comp = "superadditive_cached"
    runs = draw(st.lists(st.tuples(st.integers(0, 2**16), st.integers(1, 7)), min_size=1, max_size=8))
    ops = []
    for choice, rep in runs:
        ops.extend([choice] * rep)
        if draw(st.integers(0, 5)) == 0:
            ops.append("reset")
    ops = ops[:48]
    return {"n": n, "game": spec, "computer": comp, "gap": draw(st.sampled_from(["exploitability", "l1_norm"])),
            "budget": draw(st.sampled_from([None, None, 3])), "seed": draw(st.integers(0, 2**31)), "ops": ops,
            "mask_queries": draw(st.sampled_from([255, 0, 0, 0b01010101, 0b00010001, 1]))}


@guarded
def check_case(case: dict) -> Result:
    import numpy as np
    from incomplete_cooperative.coalitions import minimal_game_coalitions
    from incomplete_cooperative.icg_gym import ICG_Gym
    from incomplete_cooperative.icg_gym_linear import ICG_Gym_Linear
    from .. import libgames, repo
    from .c09 import _gap_fn
    res = Result()
    n = case["n"]
    spec = case["game"]
    inc = repo.new_game(n, case["computer"])
    inner = ICG_Gym(inc, lambda: libgames.spec_game(spec), minimal_game_coalitions(inc), _gap_fn(case["gap"]),
                    done_after_n_actions=case["budget"])
    env = ICG_Gym_Linear(inner)
    np.random.seed(case["seed"] % (2**32))
    explorable = [s for s in range(1 << n) if s not in minimal_masks(n)]
    sizes_used: set[int] = set()
    exhausted = False

    def known_set():
        return {s for s in range(1 << n) if inc.is_value_known(repo.coal(s))}

    def check_obs(obs, where):
        obs = [float(x) for x in obs]
        inner_state = [float(x) for x in inner.state]
        want = [0.0] * n
        for s, x in zip(explorable, inner_state):
            want[popcount(s)] += x
        if len(obs) != n:
            res.fail(f"observation-length :: {where}: length {len(obs)} expected {n}")
            return
        if any(abs(a - b) > 1e-12 * (1 + abs(b)) for a, b in zip(obs, want)):
            res.fail(f"observation :: {where}: {obs} expected per-size sums {want}")

    def check_mask(where, query: bool = True):
        """Allowed sizes from the model; the wrapper's own mask is only queried when ``query`` (a caller that steps several
        times in a row without asking for the mask is legal too)."""
        K = known_set()
        want = [any(popcount(s) == k and s not in K for s in explorable) for k in range(n)]
        if query:
            mask = [bool(x) for x in env.action_masks()]
            if mask != want:
                res.fail(f"mask :: {where}: {mask} expected {want}")
        return want

    obs, info = env.reset()
    check_obs(obs, "after initial reset")
    check_obs(env.state, "state after initial reset")
    steps = 0
    for i, op in enumerate(case["ops"]):
        if res.failures:
            break
        where = f"op {i}"
        allowed = check_mask(where, query=(case.get("mask_queries", 255) >> (i % 8)) & 1 == 1)
        if op == "reset":
            obs, info = env.reset()
            if known_set() != minimal_masks(n):
                res.fail(f"reset :: {where}: knowledge not reset")
            check_obs(obs, where + " reset")
            continue
        ks = [k for k in range(n) if allowed[k]]
        if not ks:
            break
        pref = 2 + op % max(1, n - 2)          # a repeated choice keeps asking for the same size while it is allowed
        k = pref if pref in ks else ks[op % len(ks)]
        before = known_set()
        out = env.step(k)
        steps += 1
        after = known_set()
        new = after - before
        if len(new) != 1 or before - after:
            res.fail(f"step-reveals :: {where}: step({k}) changed knowledge by +{sorted(new)} -{sorted(before - after)}")
            break
        s = next(iter(new))
        if popcount(s) != k:
            res.fail(f"step-size :: {where}: step({k}) revealed coalition {s} of size {popcount(s)}")
        if out[4].get("chosen_coalition") != s:
            res.fail(f"step-info :: {where}: reported {out[4].get('chosen_coalition')} revealed {s}")
        if float(out[1]) != float(inner.reward) or bool(out[2]) != bool(inner.done):
            res.fail(f"step-reward/done :: {where}: returned ({out[1]!r},{out[2]}) inner ({inner.reward!r},{inner.done})")
        if float(env.reward) != float(inner.reward) or bool(env.done) != bool(inner.done):
            res.fail(f"reward/done-properties :: {where}")
        check_obs(out[0], where + f" step({k})")
        check_obs(env.state, where + " state")
        sizes_used.add(k)
        if not any(popcount(t) == k and t not in after for t in explorable):
            exhausted = True
        if bool(inner.done) and case["budget"] is not None:
            pass
    check_mask("end")
    res.nontrivial = len(sizes_used) >= 2 and exhausted
    res.label(f"n={n}", "src=" + spec.get("how", "?").split("(")[0], f"sizes-used={len(sizes_used)}")
    if exhausted:
        res.label("exhausted-a-size")
    return res


def _sample(case):
    c = dict(case)
    g = dict(case["game"])
    if "v" in g and len(g["v"]) > 16:
        g["v"] = g["v"][:16] + ["..."]
    c["game"] = g
    return c


def plan(tier: str) -> list[dict]:
    if tier == "quick":
        return [{"n_min": 3, "n_max": 5, "examples": 250, "cost": 3} for _ in range(4)] + [{"n_min": 6, "n_max": 6, "examples": 40, "cost": 3}]
    return [{"n_min": 3, "n_max": 5, "examples": 9000, "cost": 10} for _ in range(12)] + [{"n_min": 6, "n_max": 6, "examples": 1000, "cost": 10} for _ in range(4)]


def run_shard(spec: dict, ctx: Ctx) -> None:
    ctx.run_given(cases(spec["n_min"], spec["n_max"]), check_case, spec["examples"], sample_of=_sample)
