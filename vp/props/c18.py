"""C18  Coalitions are finite sets in both representations; predicates match their definitions.

Mostly exhaustive enumeration (every coalition for n<=10, every pair for n<=6, every integer game on a small lattice
for n=3); Hypothesis-generated games for the predicates at n=4,5 and for the tolerance clause.
"""
from __future__ import annotations

import itertools

from hypothesis import strategies as st

from ..core import Ctx, Result, guarded
from ..oracles import is_monotone_nonincreasing, is_sa, is_supermodular, members, popcount, sa_violations

ID = "C18"
LEVEL = "exploration"
RULE = ("Exhaustive: every coalition id for n=1..N (players, len, from_players round trip, membership of every player, "
        "inverted, +player, -player, sub-/super-coalition enumeration as sets AND as counts; id-array functions players / "
        "get_size / sub_coalitions / super_coalitions / get_all_coalitions against the object versions and frozensets); every "
        "ordered PAIR for n<=M (|, &, -, containment, disjointness); powerset, minimal_game_coalitions, all_coalitions, "
        "exclude_coalition, grand_coalition. Predicates: every integer game on the lattice {-L..L}^7 for n=3, every 0/1-valued 4-player game with zero singletons "
        "(2^11; {-1,0,1}^11 in thorough) and Hypothesis games for n=4,5 (incl. games built so that exactly ONE split inequality is violated): is_superadditive, is_monotone_decreasing, is_sam, "
        "check_supermodularity(...) is None must equal textbook definitions in exact arithmetic; tolerance clause (violation by "
        "relative 1e-12 accepted, 1e-6 rejected - relative to v(U) as documented, also in mixed-sign games where two summands of size 2^20..2^40 cancel to a small v(U)). Non-trivial for predicates: decided by a single inequality; coalition cases are "
        "distinct by construction (one case per coalition / per pair block).")
LEVEL_TEXT = ("The coalition algebra is finite for each n and is enumerated completely for the listed n (exhaustive: true for those "
              "sub-claims in the thorough tier); predicates are decided on a complete small lattice of games and explored on generated "
              "games beyond.")
LEVEL_NOTE = ("Trusted: Python frozenset semantics, the textbook predicates in vp/oracles.py. Quick: coalitions n<=8, pairs n<=5, "
              "lattice {-1,0,1}^7; thorough: n<=10, pairs n<=6, lattice {-2..2}^7.")
TECHNIQUE = "property-based testing: exhaustive enumeration of finite domains vs frozenset/textbook oracles + Hypothesis games for predicates"
ASSUMPTIONS = ["Coalition == int comparison is not part of the listed semantics and is not judged",
               "tolerance clause: documented rtol 1e-9 (is_superadditive), absolute 1e-10 (check_supermodularity); both sides generated with 3 orders of margin"]


def _fs(mask: int) -> frozenset:
    return frozenset(members(mask))


@guarded
def check_case(case: dict) -> Result:
    kind = case["kind"]
    if kind == "coalitions":
        return _check_coalitions(case["n"])
    if kind == "coalitions-light":
        return _check_coalitions_light(case["n"])
    if kind == "pairs":
        return _check_pairs(case["n"])
    if kind == "helpers":
        return _check_helpers(case["n"])
    if kind == "game":
        return _check_predicates(case)
    if kind == "lattice":
        return _check_lattice(case)
    if kind == "lattice4":
        return _check_lattice4(case)
    if kind == "tolerance":
        return _check_tolerance(case)
    if kind == "sam-scale":
        return _check_sam_scale(case)
    if kind == "wide":
        return _check_wide(case)
    raise ValueError(kind)


def _check_coalitions(n: int) -> Result:
    import numpy as np
    from incomplete_cooperative import coalition_ids as cid
    from incomplete_cooperative.coalitions import (Coalition, get_sub_coalitions, get_super_coalitions, grand_coalition,
                                                   player_to_coalition)
    res = Result()
    full = (1 << n) - 1
    allc = cid.get_all_coalitions(n)
    if list(map(int, allc)) != list(range(1 << n)):
        res.fail(f"get_all_coalitions :: n={n}")
    for s in range(1 << n):
        c = Coalition(s)
        fs = _fs(s)
        if list(c.players) != sorted(fs):
            res.fail(f"players :: n={n} coalition {s}: {list(c.players)}")
        if len(c) != len(fs):
            res.fail(f"len :: n={n} coalition {s}: {len(c)}")
        if Coalition.from_players(sorted(fs)).id != s or Coalition.from_players(reversed(sorted(fs))).id != s \
                or Coalition.from_players(list(fs) + list(fs)).id != s:
            res.fail(f"from_players :: n={n} coalition {s}")
        if hash(c) != hash(Coalition(s)) or not (c == Coalition(s)) or (s != full and c == Coalition(full)):
            res.fail(f"eq/hash :: n={n} coalition {s}")
        for p in range(n):
            if (p in c) != (p in fs):
                res.fail(f"contains-player :: n={n} coalition {s} player {p}")
            if _fs((c + p).id) != fs | {p}:
                res.fail(f"add-player :: n={n} coalition {s} + {p} = {(c + p).id}")
            if _fs((c - p).id) != fs - {p}:
                res.fail(f"sub-player :: n={n} coalition {s} - {p} = {(c - p).id}")
            if _fs((c | p).id) != fs | {p} or _fs((c & p).id) != fs & {p}:
                res.fail(f"or/and-player :: n={n} coalition {s} player {p}")
        if _fs(c.inverted(n).id) != _fs(full) - fs:
            res.fail(f"inverted :: n={n} coalition {s}: {c.inverted(n).id}")
        subs = [x.id for x in get_sub_coalitions(c)]
        want_sub = {t for t in range(1 << n) if t & s == t}
        if len(subs) != len(want_sub) or set(subs) != want_sub:
            res.fail(f"get_sub_coalitions :: n={n} coalition {s}: {len(subs)} listed, {len(want_sub)} expected")
        sups = [x.id for x in get_super_coalitions(c, n)]
        want_sup = {t for t in range(1 << n) if t & s == s}
        if len(sups) != len(want_sup) or set(sups) != want_sup:
            res.fail(f"get_super_coalitions :: n={n} coalition {s}: {len(sups)} listed, {len(want_sup)} expected")
        # id-array versions
        ci = np.int32(s)
        if list(map(int, cid.players(ci, n))) != sorted(fs):
            res.fail(f"ids.players :: n={n} coalition {s}")
        if int(cid.get_size(ci, n)) != len(fs):
            res.fail(f"ids.get_size :: n={n} coalition {s}: {int(cid.get_size(ci, n))}")
        isub = list(map(int, cid.sub_coalitions(ci, n)))
        if len(isub) != len(want_sub) or set(isub) != want_sub:
            res.fail(f"ids.sub_coalitions :: n={n} coalition {s}: {sorted(isub)[:8]}.. expected {len(want_sub)} ids")
        isup = list(map(int, cid.super_coalitions(ci, n)))
        if len(isup) != len(want_sup) or set(isup) != want_sup:
            res.fail(f"ids.super_coalitions :: n={n} coalition {s}: {sorted(isup)[:8]}.. expected {len(want_sup)} ids")
        if res.failures:
            break
    for p in range(n):
        if player_to_coalition(p).id != 1 << p:
            res.fail(f"player_to_coalition :: {p}")
    if grand_coalition(n).id != full:
        res.fail(f"grand_coalition :: n={n}")
    res.nontrivial = True
    res.label(f"coalitions n={n}")
    res.labels.append(f"coalitions-checked={1 << n}")
    return res


def _check_coalitions_light(n: int) -> Result:
    """Every coalition id of a larger n, without the (exponential) sub-/super-coalition enumerations: size, players, membership,
    complement in both representations."""
    import numpy as np
    from incomplete_cooperative import coalition_ids as cid
    from incomplete_cooperative.coalitions import Coalition
    res = Result()
    full = (1 << n) - 1
    for s in range(1 << n):
        c = Coalition(s)
        fs = _fs(s)
        if list(c.players) != sorted(fs) or len(c) != len(fs):
            res.fail(f"players/len :: n={n} coalition {s}")
        if _fs(c.inverted(n).id) != _fs(full) - fs:
            res.fail(f"inverted :: n={n} coalition {s}")
        ci = np.int32(s)
        if list(map(int, cid.players(ci, n))) != sorted(fs):
            res.fail(f"ids.players :: n={n} coalition {s}: {list(map(int, cid.players(ci, n)))}")
        if int(cid.get_size(ci, n)) != len(fs):
            res.fail(f"ids.get_size :: n={n} coalition {s}: {int(cid.get_size(ci, n))}, the coalition has {len(fs)} players")
        if int(cid.get_size(s, n)) != len(fs):
            res.fail(f"ids.get_size(int) :: n={n} coalition {s}: {int(cid.get_size(s, n))}")
        for p in (0, n // 2, n - 1):
            if (p in c) != (p in fs) or _fs((c + p).id) != fs | {p} or _fs((c - p).id) != fs - {p}:
                res.fail(f"player-ops :: n={n} coalition {s} player {p}")
        if res.failures:
            break
    res.nontrivial = True
    res.label(f"coalitions-light n={n}")
    res.labels.append(f"coalitions-checked={1 << n}")
    return res


def _check_wide(case: dict) -> Result:
    """The object representation on ids of up to 40 bits (the regret minimiser uses coalitions over 25 'players', nothing in
    the class limits the width): players, len, membership, operators against frozensets."""
    from incomplete_cooperative.coalitions import Coalition, disjoint_coalitions
    res = Result()
    a, b, n = case["a"], case["b"], case["n"]
    ca, cb, fa, fb = Coalition(a), Coalition(b), _fs(a), _fs(b)
    if list(ca.players) != sorted(fa) or len(ca) != len(fa):
        res.fail(f"wide-players/len :: id {a}: players {list(ca.players)}, len {len(ca)}; the set is {sorted(fa)}")
    if Coalition.from_players(sorted(fa)).id != a:
        res.fail(f"wide-from_players :: id {a}")
    if _fs((ca | cb).id) != fa | fb or _fs((ca & cb).id) != fa & fb or _fs((ca - cb).id) != fa - fb:
        res.fail(f"wide-operators :: ids {a}, {b}")
    if (cb in ca) != (fb <= fa) or disjoint_coalitions(ca, cb) != (not (fa & fb)):
        res.fail(f"wide-containment :: ids {a}, {b}")
    for p in case["players"]:
        if (p in ca) != (p in fa) or _fs((ca + p).id) != fa | {p} or _fs((ca - p).id) != fa - {p}:
            res.fail(f"wide-player-ops :: id {a} player {p}")
    if _fs(ca.inverted(n).id) != frozenset(range(n)) - fa:
        res.fail(f"wide-inverted :: id {a} n={n}")
    res.nontrivial = a >= 1 << 16
    res.label("wide", f"bits>={(max(a, 1).bit_length() // 8) * 8}")
    return res


@st.composite
def wide_cases(draw):
    n = draw(st.sampled_from([12, 16, 17, 20, 24, 25, 32, 40]))
    a = draw(st.integers(0, (1 << n) - 1))
    b = draw(st.integers(0, (1 << n) - 1))
    if draw(st.booleans()):
        a |= 1 << (n - 1)
    return {"kind": "wide", "n": n, "a": a, "b": b, "players": draw(st.lists(st.integers(0, n - 1), min_size=1, max_size=4))}


def _check_pairs(n: int) -> Result:
    from incomplete_cooperative.coalitions import Coalition, disjoint_coalitions
    res = Result()
    cs = [Coalition(s) for s in range(1 << n)]
    fss = [_fs(s) for s in range(1 << n)]
    for a in range(1 << n):
        for b in range(1 << n):
            ca, cb, fa, fb = cs[a], cs[b], fss[a], fss[b]
            if _fs((ca | cb).id) != fa | fb:
                res.fail(f"union :: {a} | {b} = {(ca | cb).id}")
            if _fs((ca & cb).id) != fa & fb:
                res.fail(f"intersection :: {a} & {b} = {(ca & cb).id}")
            if _fs((ca - cb).id) != fa - fb:
                res.fail(f"difference :: {a} - {b} = {(ca - cb).id}")
            if (cb in ca) != (fb <= fa):
                res.fail(f"containment :: {b} in {a} = {cb in ca}")
            if disjoint_coalitions(ca, cb) != (not (fa & fb)):
                res.fail(f"disjoint :: {a}, {b}")
            if (ca == cb) != (a == b):
                res.fail(f"eq :: {a} == {b}")
        if res.failures:
            break
    res.nontrivial = True
    res.label(f"pairs n={n}")
    res.labels.append(f"pairs-checked={(1 << n) ** 2}")
    return res


def _check_helpers(n: int) -> Result:
    from incomplete_cooperative.coalitions import (Coalition, all_coalitions, exclude_coalition, get_known_coalitions,
                                                   minimal_game_coalitions)
    from incomplete_cooperative.functoolz import powerset
    from .. import repo
    res = Result()
    full = (1 << n) - 1
    if [c.id for c in all_coalitions(n)] != list(range(1 << n)):
        res.fail(f"all_coalitions :: n={n}")
    g = repo.new_game(n)
    if [c.id for c in all_coalitions(g)] != list(range(1 << n)):
        res.fail(f"all_coalitions(game) :: n={n}")
    mins = [c.id for c in minimal_game_coalitions(n)]
    if sorted(mins) != sorted({0, full} | {1 << i for i in range(n)}) and n > 1:
        res.fail(f"minimal_game_coalitions :: n={n}: {mins}")
    if set(mins) != {0, full} | {1 << i for i in range(n)}:
        res.fail(f"minimal_game_coalitions :: n={n}: {mins}")
    if [c.id for c in minimal_game_coalitions(g)] != mins:
        res.fail(f"minimal_game_coalitions(game) :: n={n}")
    items = list(range(n))
    ps = list(powerset(items))
    if len(ps) != 1 << n or {frozenset(x) for x in ps} != {_fs(s) for s in range(1 << n)} or any(len(set(x)) != len(x) for x in ps):
        res.fail(f"powerset :: n={n}")
    if [len(x) for x in ps] != sorted(len(x) for x in ps):
        res.fail(f"powerset-order :: n={n}: not by increasing size")
    for e in range(1 << n):
        got = [c.id for c in exclude_coalition(Coalition(e), all_coalitions(n))]
        want = [s for s in range(1 << n) if s & e == 0]
        if got != want:
            res.fail(f"exclude_coalition :: n={n} exclude {e}: {got[:8]}")
            break
    known = sorted({0, 3 % (1 << n), full})
    repo.set_knowledge(g, [float(i) for i in range(1 << n)], known)
    if [c.id for c in get_known_coalitions(g)] != known:
        res.fail(f"get_known_coalitions :: n={n}")
    res.nontrivial = True
    res.label(f"helpers n={n}")
    return res


def _lib_predicates(n: int, v) -> dict:
    from incomplete_cooperative.game_properties import is_monotone_decreasing, is_sam, is_superadditive
    from incomplete_cooperative.supermodularity_check import check_supermodularity
    from .. import repo
    g = repo.full_game(n, v)
    return {"sa": bool(is_superadditive(g)), "mono": bool(is_monotone_decreasing(g)), "sam": bool(is_sam(g)),
            "supermodular": check_supermodularity(g) is None}


def _ref_predicates(n: int, v) -> dict:
    sa = is_sa(v, n)
    mono = is_monotone_nonincreasing(v, n)
    return {"sa": sa, "mono": mono, "sam": sa and mono, "supermodular": is_supermodular(v, n)}


def _check_predicates(case: dict) -> Result:
    res = Result()
    n, v = case["n"], case["v"]
    lib, ref = _lib_predicates(n, v), _ref_predicates(n, v)
    for k in lib:
        if lib[k] != ref[k]:
            res.fail(f"predicate-{k} :: n={n}: library says {lib[k]}, textbook definition says {ref[k]} for v={v}")
    viol = len(sa_violations(v, n))
    res.nontrivial = viol == 1 or case.get("single", False)
    res.label(f"n={n}", f"sa={ref['sa']}", f"mono={ref['mono']}", f"supermodular={ref['supermodular']}")
    if viol == 1:
        res.label("single-violated-pair")
    return res


def _check_lattice(case: dict) -> Result:
    """Every integer game v: {non-empty coalitions of 3 players} -> {-L..L} in one block (block = value of the grand coalition)."""
    res = Result()
    L, top = case["L"], case["top"]
    rng = range(-L, L + 1)
    count = single = 0
    for vals in itertools.product(rng, repeat=6):
        v = [0.0] + [float(x) for x in vals] + [float(top)]
        lib, ref = _lib_predicates(3, v), _ref_predicates(3, v)
        count += 1
        if len(sa_violations(v, 3)) == 1:
            single += 1
        for k in lib:
            if lib[k] != ref[k]:
                res.fail(f"predicate-{k} :: n=3: library says {lib[k]}, definition says {ref[k]} for v={v}")
        if res.failures:
            break
    res.nontrivial = True
    res.label(f"lattice L={L}")
    res.labels.append(f"lattice-games={count}")
    res.labels.append(f"lattice-single-violation={single}")
    return res


def _check_lattice4(case: dict) -> Result:
    """Every 4-player game with singletons 0 and values in {lo..hi} on the coalitions of size >= 2, restricted to one value
    of the grand coalition and (optionally) one block of the first triple - 0/1-valued: 2^11 games in all."""
    res = Result()
    vals_range = case["values"]
    big = [s for s in range(16) if popcount(s) >= 2]
    fixed = case.get("fixed", {})
    free = [s for s in big if str(s) not in fixed]
    count = single = 0
    for combo in itertools.product(vals_range, repeat=len(free)):
        v = [0.0] * 16
        for s, x in zip(free, combo):
            v[s] = float(x)
        for s, x in fixed.items():
            v[int(s)] = float(x)
        lib = _lib_predicates_fast(4, v)
        ref = {"sa": is_sa(v, 4), "mono": is_monotone_nonincreasing(v, 4)}
        ref["sam"] = ref["sa"] and ref["mono"]
        count += 1
        if len(sa_violations(v, 4)) == 1:
            single += 1
        for k in ref:
            if lib[k] != ref[k]:
                res.fail(f"predicate-{k} :: n=4: library says {lib[k]}, definition says {ref[k]} for v={v}")
        if res.failures:
            break
    res.nontrivial = True
    res.label("lattice4")
    res.labels.append(f"lattice4-games={count}")
    res.labels.append(f"lattice4-single-violation={single}")
    return res


def _lib_predicates_fast(n: int, v) -> dict:
    from incomplete_cooperative.game_properties import is_monotone_decreasing, is_sam, is_superadditive
    from .. import repo
    g = repo.full_game(n, v)
    return {"sa": bool(is_superadditive(g)), "mono": bool(is_monotone_decreasing(g)), "sam": bool(is_sam(g))}


def _check_sam_scale(case: dict) -> Result:
    """is_sam must be is_superadditive AND is_monotone_decreasing, with the same documented relative tolerance, at every scale:
    an integer SAM game, one split inequality violated by a relative amount, the whole game multiplied by a power of two."""
    from incomplete_cooperative.game_properties import is_monotone_decreasing, is_sam, is_superadditive
    from .. import repo
    res = Result()
    n, s, rel, k = case["n"], case["s"], case["rel"], case["k"]
    v = [float(x) for x in case["v"]]
    if popcount(s) < 2:
        res.label("sam-scale-skip")
        return res
    best = max(v[a] + v[s ^ a] for a in range(1, s) if a & s == a)
    if best == 0:
        res.label("sam-scale-skip")
        return res
    if rel:
        v[s] = best - abs(best) * rel
    scale = 2.0 ** k
    v = [x * scale for x in v]
    if not is_monotone_nonincreasing(v, n):
        res.label("sam-scale-skip")
        return res
    others = [(a, b) for a, b in sa_violations(v, n, abs(best) * scale * 1e-15) if (a | b) != s]
    if others:
        res.label("sam-scale-skip")
        return res
    g = repo.full_game(n, v)
    sa, mono, sam = bool(is_superadditive(g)), bool(is_monotone_decreasing(g)), bool(is_sam(g))
    if sam != (sa and mono):
        res.fail(f"is_sam!=is_superadditive-and-monotone :: n={n} scale 2^{k} relative violation {rel:g}: is_sam={sam}, is_superadditive={sa}, is_monotone_decreasing={mono}")
    if rel <= 1e-12 and not sam:
        res.fail(f"is_sam-tolerance :: scale 2^{k}: violation by relative {rel:g} rejected (documented rtol 1e-9)")
    if rel >= 1e-6 and sam:
        res.fail(f"is_sam-tolerance :: scale 2^{k}: violation by relative {rel:g} accepted (documented rtol 1e-9)")
    res.nontrivial = True
    res.label(f"sam-scale k={k} rel={rel:g}")
    return res


def _check_tolerance(case: dict) -> Result:
    """A superadditive float game with one inequality violated by a relative delta."""
    from incomplete_cooperative.game_properties import is_superadditive
    from incomplete_cooperative.supermodularity_check import check_supermodularity
    from .. import repo
    res = Result()
    n, v, s, rel = case["n"], list(case["v"]), case["s"], case["rel"]
    # tight inequality at s: v(s) equals its best split; lower v(s) by rel * |v(s)|
    best = max(v[a] + v[s ^ a] for a in range(1, s) if a & s == a)
    if popcount(s) < 2 or (best == 0 and not case.get("cancel")):
        res.label("tolerance-skip")
        return res
    if best == 0:
        # v(U) ~ 0 reached by cancellation of large summands: the documented tolerance (relative to v(U), atol 0) gives no slack;
        # only gross violations (>= 1e-6 absolute, in a game whose values are integers) are asserted
        if rel < 1e-6:
            res.label("tolerance-skip")
            return res
        v[s] = -rel
    else:
        v[s] = best - abs(best) * rel
    if case.get("cancel"):
        kappa = max((abs(v[a]) + abs(v[s ^ a])) / max(abs(best), rel) for a in range(1, s) if a & s == a and v[a] + v[s ^ a] == best)
        res.label(f"tolerance cancel kappa>=1e{len(str(int(kappa))) - 1}")
    # keep the rest superadditive: raise supersets not needed - only this pair may be violated; others involving s as a part get easier
    got = bool(is_superadditive(repo.full_game(n, v)))
    others_ok = all((a | b) == s for a, b in sa_violations(v, n, abs(best) * 1e-15))
    if not others_ok:
        res.label("tolerance-skip")
        return res
    if rel <= 1e-12 and not got:
        res.fail(f"tolerance :: violation by relative {rel:g} at coalition {s} rejected (documented rtol 1e-9)")
    if rel >= 1e-6 and got:
        res.fail(f"tolerance :: violation by relative {rel:g} at coalition {s} accepted (documented rtol 1e-9)")
    res.nontrivial = True
    res.label(f"tolerance rel={rel:g}")
    return res


@st.composite
def pred_games(draw, n: int):
    from ..games import arbitrary_games, sam_games, superadditive_games
    kind = draw(st.sampled_from(["arbitrary", "sa", "sa-mutated", "sam", "sam-mutated", "small", "one-split-violated", "one-split-violated"]))
    size = 1 << n
    if kind == "arbitrary":
        v = draw(arbitrary_games(n, n, classes=("int",)))["v"]
    elif kind == "small":
        v = [float(x) for x in draw(st.lists(st.integers(-2, 2), min_size=size, max_size=size))]
        v[0] = 0.0
    elif kind.startswith("sam"):
        v = list(draw(sam_games(n, n))["v"])
    else:
        v = list(draw(superadditive_games(n, n, classes=("int",)))["v"])
    single = False
    if kind == "one-split-violated":
        # a superadditive game in which exactly ONE inequality v(A)+v(B) <= v(A|B) is then broken: lower v(S) to just below its
        # unique best split (keeping it >= every other split); S as a part of larger coalitions only gets easier
        from ..games import build_superadditive
        from ..oracles import proper_splits
        singles = draw(st.lists(st.integers(-6, 6), min_size=n, max_size=n))
        sur = draw(st.lists(st.integers(0, 5), min_size=size, max_size=size))
        v = [float(x) for x in build_superadditive(n, singles, sur)]
        cands = []
        for s_ in range(size):
            if popcount(s_) < 2:
                continue
            tot = sorted((v[a] + v[b] for a, b in proper_splits(s_)), reverse=True)
            if len(tot) == 1 or tot[0] - 1 >= tot[1]:
                cands.append((s_, tot[0]))
        if cands:
            s_, best = draw(st.sampled_from(cands))
            v[s_] = best - 1.0
            single = True
    if kind.endswith("mutated"):
        s = draw(st.integers(1, size - 1))
        v[s] += draw(st.sampled_from([-1.0, 1.0, -3.0, 2.0]))
        single = True
    return {"kind": "game", "n": n, "v": v, "single": single}


@st.composite
def tol_cases(draw, n: int):
    from ..games import build_superadditive, superadditive_games
    size = 1 << n
    cands = [s for s in range(size) if popcount(s) >= 2]
    if draw(st.booleans()):
        # mixed-sign game: two players with large values of opposite sign that cancel in every coalition holding both, the rest
        # small integers (all arithmetic exact).  The documented slack is relative to v(U), not to the summands.
        i, j = draw(st.permutations(range(n)))[:2]
        big = 2 ** draw(st.sampled_from([20, 24, 30, 40]))
        singles = draw(st.lists(st.integers(-3, 3), min_size=n, max_size=n))
        singles[i], singles[j] = big, -big + draw(st.integers(-3, 3))
        sur = draw(st.lists(st.integers(0, 2), min_size=size, max_size=size))
        v = [float(x) for x in build_superadditive(n, singles, sur)]
        both = [s for s in cands if s >> i & 1 and s >> j & 1]
        s = draw(st.sampled_from([(1 << i) | (1 << j)] * 3 + both))
        return {"kind": "tolerance", "n": n, "v": v, "s": s, "cancel": True,
                "rel": draw(st.sampled_from([1e-13, 1e-6, 1e-5, 1e-4, 1e-3]))}
    g = draw(superadditive_games(n, n, classes=("float",)))
    return {"kind": "tolerance", "n": n, "v": g["v"], "s": draw(st.sampled_from(cands)),
            "rel": draw(st.sampled_from([1e-13, 1e-12, 1e-6, 1e-5, 1e-3]))}


@st.composite
def sam_scale_cases(draw, n: int):
    from ..games import sam_games
    g = draw(sam_games(n, n))
    size = 1 << n
    cands = [s for s in range(size) if popcount(s) >= 2]
    return {"kind": "sam-scale", "n": n, "v": g["v"], "s": draw(st.sampled_from(cands)),
            "rel": draw(st.sampled_from([0.0, 1e-13, 1e-12, 1e-6, 1e-5, 1e-3])), "k": draw(st.sampled_from([-40, -34, -20, 0, 20, 30, 40]))}


def plan(tier: str) -> list[dict]:
    if tier == "quick":
        return ([{"mode": "enum", "cases": [{"kind": "coalitions", "n": n} for n in range(1, 8)] + [{"kind": "helpers", "n": n} for n in range(1, 8)], "cost": 2},
                 {"mode": "enum", "cases": [{"kind": "coalitions", "n": 8}], "cost": 3},
                 {"mode": "enum", "cases": [{"kind": "coalitions-light", "n": n} for n in (9, 10, 11)], "cost": 2},
                 {"mode": "enum", "cases": [{"kind": "pairs", "n": n} for n in range(1, 6)], "cost": 2},
                 {"mode": "enum", "cases": [{"kind": "lattice", "L": 1, "top": t} for t in (-1, 0, 1)], "cost": 3},
                 {"mode": "enum", "cases": [{"kind": "lattice4", "values": [0, 1]}], "cost": 3},
                 {"mode": "games", "n": 4, "examples": 300, "cost": 2}, {"mode": "games", "n": 5, "examples": 100, "cost": 2},
                 {"mode": "tol", "n": 4, "examples": 80, "cost": 1}, {"mode": "samscale", "n": 4, "examples": 200, "cost": 1},
                 {"mode": "wide", "examples": 400, "cost": 1}])
    return ([{"mode": "enum", "cases": [{"kind": "coalitions", "n": n} for n in range(1, 9)] + [{"kind": "helpers", "n": n} for n in range(1, 10)], "cost": 3},
             {"mode": "enum", "cases": [{"kind": "coalitions", "n": 9}], "cost": 8},
             {"mode": "enum", "cases": [{"kind": "coalitions-light", "n": n} for n in (11, 12, 13)], "cost": 6},
             {"mode": "enum", "cases": [{"kind": "coalitions", "n": 10}], "cost": 30},
             {"mode": "enum", "cases": [{"kind": "pairs", "n": n} for n in range(1, 6)], "cost": 3},
             {"mode": "enum", "cases": [{"kind": "pairs", "n": 6}], "cost": 3}]
            + [{"mode": "enum", "cases": [{"kind": "lattice", "L": 2, "top": t}], "cost": 20} for t in (-2, -1, 0, 1, 2)]
            + [{"mode": "enum", "cases": [{"kind": "lattice4", "values": [0, 1]}, {"kind": "lattice4", "values": [-1, 0]}], "cost": 6}]
            + [{"mode": "enum", "cases": [{"kind": "lattice4", "values": [-1, 0, 1], "fixed": {"15": t, "14": u}}], "cost": 12} for t in (-1, 0, 1) for u in (-1, 0, 1)]
            + [{"mode": "games", "n": 4, "examples": 15000, "cost": 6} for _ in range(3)]
            + [{"mode": "games", "n": 5, "examples": 4000, "cost": 6} for _ in range(3)]
            + [{"mode": "tol", "n": 4, "examples": 800, "cost": 3}, {"mode": "tol", "n": 5, "examples": 300, "cost": 3},
               {"mode": "samscale", "n": 4, "examples": 3000, "cost": 3}, {"mode": "samscale", "n": 5, "examples": 800, "cost": 3},
               {"mode": "wide", "examples": 20000, "cost": 3}])


def run_shard(spec: dict, ctx: Ctx) -> None:
    if spec["mode"] == "enum":
        parts = []
        for case in spec["cases"]:
            ctx.judge_enum(case, check_case(case))
            parts.append(str(case))
        ctx.extra["exhaustive_parts"] = parts
    elif spec["mode"] == "games":
        ctx.run_given(pred_games(spec["n"]), check_case, spec["examples"])
    elif spec["mode"] == "wide":
        ctx.run_given(wide_cases(), check_case, spec["examples"])
    elif spec["mode"] == "samscale":
        ctx.run_given(sam_scale_cases(spec["n"]), check_case, spec["examples"])
    else:
        ctx.run_given(tol_cases(spec["n"]), check_case, spec["examples"])
