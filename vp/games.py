"""Game generators as Hypothesis strategies - by construction, never by rejection.

A generated game is a dict  {"n": n, "cls": "int"|"dyadic"|"float", "v": [2^n numbers], "how": "..."}.
Value classes: int (|v| moderate), dyadic (int * 2^-k: every sum/difference/max the bound computers form is
exact in float64), float (arbitrary doubles of moderate magnitude; closure computed in float arithmetic so the
superadditivity inequalities hold for the doubles actually stored).
"""
from __future__ import annotations

import random as _random

from hypothesis import strategies as st

from .oracles import by_size, members, minimal_masks, popcount, proper_splits, submasks

EXACT = ("int", "dyadic")


# ----------------------------------------------------------------------------------------------------
# deterministic builders (pure functions of their arguments)


def build_superadditive(n: int, singles: list, surplus: list) -> list:
    """v(S) = max over splits of v(A)+v(S\\A), plus surplus[S] >= 0.  Every superadditive game has this form."""
    v = [0] * (1 << n)
    for i in range(n):
        v[1 << i] = singles[i]
    for s in by_size(n):
        if popcount(s) < 2:
            continue
        best = None
        for a, b in proper_splits(s):
            c = v[a] + v[b]
            if best is None or c > best:
                best = c
        v[s] = best + surplus[s]
    return v


def build_sam(n: int, singles: list, pos: list) -> list:
    """Superadditive AND monotone non-increasing game: singletons <= 0, then v(S) anywhere in
    [max split, min over sub-coalitions]; pos[S] in {0..4} picks lower end / upper end / interior points.
    Integer valued when singles are integers (interior points are rounded toward the lower end)."""
    v = [0] * (1 << n)
    for i in range(n):
        v[1 << i] = -abs(singles[i])
    for s in by_size(n):
        if popcount(s) < 2:
            continue
        lo = max(v[a] + v[b] for a, b in proper_splits(s))
        hi = min(v[s ^ (1 << i)] for i in members(s))
        assert lo <= hi, "SAM construction interval empty (harness bug)"
        p = pos[s] % 5
        if p == 0:
            v[s] = lo
        elif p == 1:
            v[s] = hi
        else:
            v[s] = lo + ((hi - lo) * (p - 1)) // 4 if isinstance(lo, int) and isinstance(hi, int) else lo + (hi - lo) * (p - 1) / 4
            if not (lo <= v[s] <= hi):
                v[s] = lo
    return v


def unanimity_combination(n: int, weights: dict[int, float]) -> list:
    """Non-negative combination of unanimity games: convex, hence superadditive."""
    v = [0] * (1 << n)
    for s in range(1 << n):
        v[s] = sum(w for t, w in weights.items() if t & s == t)
    return v


def add_additive(v: list, n: int, a: list) -> list:
    out = list(v)
    for s in range(1 << n):
        out[s] = v[s] + sum(a[i] for i in members(s))
    return out


def scale_game(v: list, k: int) -> list:
    f = 2.0 ** (-k)
    return [x * f for x in v]


def seeded_superadditive(n: int, seed: int, cls: str) -> dict:
    """Cheap generator for larger n: a python PRNG seeded by a drawn integer (the seed is part of the case)."""
    rng = _random.Random(seed)
    zero_p = rng.choice([0.2, 0.5, 0.8, 0.95])
    if cls == "float":
        singles = [rng.uniform(-10, 10) for _ in range(n)]
        surplus = [0.0 if rng.random() < zero_p else rng.uniform(0, 5) for _ in range(1 << n)]
        v = build_superadditive(n, singles, surplus)
    else:
        singles = [rng.randint(-20, 20) for _ in range(n)]
        surplus = [0 if rng.random() < zero_p else rng.randint(1, 12) for _ in range(1 << n)]
        v = build_superadditive(n, singles, surplus)
        if cls == "dyadic":
            v = scale_game(v, rng.randint(1, 12))
    return {"n": n, "cls": cls, "v": [float(x) for x in v], "how": f"seeded-cover({seed})"}


def seeded_sam(n: int, seed: int) -> dict:
    rng = _random.Random(seed)
    singles = [rng.randint(0, 24) for _ in range(n)]
    pos = [rng.randint(0, 4) for _ in range(1 << n)]
    v = build_sam(n, singles, pos)
    cls = "int"
    if rng.random() < 0.34:
        v = scale_game(v, rng.randint(1, 6))
        cls = "dyadic"
    return {"n": n, "cls": cls, "v": [float(x) for x in v], "how": f"seeded-sam({seed})"}


def seeded_knowledge(n: int, seed: int) -> list[int]:
    rng = _random.Random(seed)
    dens = rng.choice([0.0, 0.1, 0.3, 0.5, 0.7, 0.9, 1.0])
    mins = minimal_masks(n)
    return sorted(mins | {s for s in range(1 << n) if s not in mins and rng.random() < dens})


# ----------------------------------------------------------------------------------------------------
# strategies


def _surplus_elem(cls: str):
    if cls == "float":
        return st.one_of(st.just(0.0), st.floats(min_value=0.0, max_value=8.0, allow_nan=False, allow_subnormal=False))
    return st.one_of(st.just(0), st.integers(0, 16))


def _single_elem(cls: str):
    if cls == "float":
        return st.floats(min_value=-16.0, max_value=16.0, allow_nan=False, allow_subnormal=False)
    return st.integers(-24, 24)


@st.composite
def superadditive_games(draw, min_n: int = 3, max_n: int = 5, classes=("int", "dyadic", "float"), explicit_up_to: int = 5):
    n = draw(st.integers(min_n, max_n))
    cls = draw(st.sampled_from(classes))
    if n > explicit_up_to:
        return seeded_superadditive(n, draw(st.integers(0, 2**32 - 1)), cls)
    kind = draw(st.sampled_from(["cover", "cover", "cover", "unanimity", "zero-normalised", "zero-rich"]))
    size = 1 << n
    if kind == "zero-rich":
        # mixed-sign integer game in which many coalitions over negative singletons are worth EXACTLY 0 (lifted from a negative
        # best split to 0, which keeps superadditivity): exact zeros are values, not 'nothing known'
        singles = draw(st.lists(st.integers(-3, 1), min_size=n, max_size=n))
        lift = draw(st.lists(st.booleans(), min_size=size, max_size=size))
        sur = draw(st.lists(st.sampled_from([0, 0, 0, 1]), min_size=size, max_size=size))
        v = [0] * size
        for i in range(n):
            v[1 << i] = singles[i]
        for s_ in by_size(n):
            if popcount(s_) < 2:
                continue
            best = max(v[a] + v[b] for a, b in proper_splits(s_))
            v[s_] = 0 if (best < 0 and lift[s_]) else best + sur[s_]
        if cls == "dyadic":
            v = scale_game(v, draw(st.integers(1, 12)))
        return {"n": n, "cls": cls, "v": [float(x) for x in v], "how": kind}
    if kind == "unanimity":
        ws = draw(st.lists(st.tuples(st.integers(1, size - 1), st.integers(0, 9)), min_size=1, max_size=8))
        weights: dict[int, float] = {}
        for t, w in ws:
            weights[t] = weights.get(t, 0) + w
        v = unanimity_combination(n, weights)
        a = draw(st.lists(st.integers(-12, 12), min_size=n, max_size=n))
        v = add_additive(v, n, a)
        if cls == "float":
            f = draw(st.floats(min_value=0.001, max_value=10.0, allow_nan=False))
            # scaling by a float may break superadditivity of the stored doubles by rounding: re-cover in float arithmetic
            v = _float_cover(n, [x * f for x in v])
        elif cls == "dyadic":
            v = scale_game(v, draw(st.integers(1, 12)))
        return {"n": n, "cls": cls, "v": [float(x) for x in v], "how": kind}
    singles = [0] * n if kind == "zero-normalised" else draw(st.lists(_single_elem(cls), min_size=n, max_size=n))
    if cls == "float" and kind == "zero-normalised":
        singles = [0.0] * n
    surplus = draw(st.lists(_surplus_elem(cls), min_size=size, max_size=size))
    v = build_superadditive(n, singles, surplus)
    if cls == "dyadic":
        v = scale_game(v, draw(st.integers(1, 12)))
    return {"n": n, "cls": cls, "v": [float(x) for x in v], "how": kind}


def _float_cover(n: int, w: list) -> list:
    """Superadditive cover in float arithmetic: v(S) = max(w(S), max split)."""
    v = [0.0] * (1 << n)
    for s in by_size(n):
        k = popcount(s)
        if k == 0:
            continue
        if k == 1:
            v[s] = float(w[s])
            continue
        best = max(v[a] + v[b] for a, b in proper_splits(s))
        v[s] = max(float(w[s]), best)
    return v


@st.composite
def sam_games(draw, min_n: int = 3, max_n: int = 5, explicit_up_to: int = 5):
    """Superadditive monotone-non-increasing games, integer valued (exact)."""
    n = draw(st.integers(min_n, max_n))
    if n > explicit_up_to:
        return seeded_sam(n, draw(st.integers(0, 2**32 - 1)))
    size = 1 << n
    kind = draw(st.sampled_from(["interval", "interval", "xos", "coverage", "budget", "concave", "mix"]))
    if kind == "interval":
        singles = draw(st.lists(st.integers(0, 24), min_size=n, max_size=n))
        pos = draw(st.lists(st.integers(0, 4), min_size=size, max_size=size))
        v = build_sam(n, singles, pos)
    else:
        f = draw(_subadditive_fn(n, kind))
        v = [-x for x in f]
    cls = "int"
    if draw(st.integers(0, 2)) == 0:
        # non-integer but exactly representable values (halves, quarters ...): still SAM, every comparison still exact
        v = scale_game(v, draw(st.integers(1, 6)))
        cls = "dyadic"
    return {"n": n, "cls": cls, "v": [float(x) for x in v], "how": "sam-" + kind}


@st.composite
def _subadditive_fn(draw, n: int, kind: str):
    """Monotone subadditive integer function f >= 0, f(empty) = 0 (as list over masks)."""
    size = 1 << n
    if kind == "xos":
        k = draw(st.integers(1, 4))
        adds = [draw(st.lists(st.integers(0, 9), min_size=n, max_size=n)) for _ in range(k)]
        return [max(sum(a[i] for i in members(s)) for a in adds) for s in range(size)]
    if kind == "coverage":
        u = draw(st.integers(1, 8))
        sets = [draw(st.integers(0, (1 << u) - 1)) for _ in range(n)]
        out = []
        for s in range(size):
            acc = 0
            for i in members(s):
                acc |= sets[i]
            out.append(popcount(acc))
        return out
    if kind == "budget":
        k = draw(st.integers(1, n))
        return [min(k, popcount(s)) for s in range(size)]
    if kind == "concave":
        incs = sorted(draw(st.lists(st.integers(0, 6), min_size=n, max_size=n)), reverse=True)
        g = [0]
        for d in incs:
            g.append(g[-1] + d)
        return [g[popcount(s)] for s in range(size)]
    # mix: sum or max of two simpler ones
    f1 = draw(_subadditive_fn(n, draw(st.sampled_from(["xos", "coverage", "budget", "concave"]))))
    f2 = draw(_subadditive_fn(n, draw(st.sampled_from(["xos", "coverage", "budget", "concave"]))))
    if draw(st.booleans()):
        return [a + b for a, b in zip(f1, f2)]
    return [max(a, b) for a, b in zip(f1, f2)]


@st.composite
def arbitrary_games(draw, min_n: int = 2, max_n: int = 5, classes=("int", "dyadic", "float")):
    """Class-free games: any finite values with v(empty) = 0."""
    n = draw(st.integers(min_n, max_n))
    cls = draw(st.sampled_from(classes))
    size = 1 << n
    how = "arbitrary"
    if cls == "float":
        vals = draw(st.lists(st.floats(min_value=-1e4, max_value=1e4, allow_nan=False, allow_subnormal=False),
                             min_size=size, max_size=size))
    else:
        vals = draw(st.lists(st.integers(-64, 64), min_size=size, max_size=size))
        if draw(st.integers(0, 2)) == 0:
            # sub-consistent data: big coalitions are worth LESS than their parts (what revealed values of a game outside
            # the assumed class look like); only such inputs separate "split into known parts" from "split into any parts"
            how = "arbitrary-decreasing"
            vals = [abs(x) % 9 + 1 if popcount(s) == 1 else (x % 7) - 3 * (popcount(s) - 1) for s, x in enumerate(vals)]
        if cls == "dyadic":
            vals = scale_game(vals, draw(st.integers(1, 12)))
    vals = [float(x) for x in vals]
    vals[0] = 0.0
    return {"n": n, "cls": cls, "v": vals, "how": how}


@st.composite
def knowledge_sets(draw, n: int, minimal: bool = True):
    """Knowledge set as sorted list of masks: minimal information plus a subset of the rest.

    A density is drawn first so sparse, half and dense knowledge all occur."""
    mins = minimal_masks(n)
    rest = [s for s in range(1 << n) if s not in mins]
    if not rest:
        return sorted(mins)
    dens = draw(st.sampled_from([0, 1, 2, 3, 5, 7, 8, "layers"]))   # eighths, or whole size-layers
    if dens == "layers":
        # all coalitions of some sizes known, all of the other sizes unknown (plus a little noise): the shape in which
        # bounds of a coalition can only come from splits into unknown parts or from far-away known coalitions
        sizes = draw(st.lists(st.integers(2, max(2, n - 1)), min_size=1, max_size=max(1, n - 2), unique=True))
        extra = [s for s in rest if popcount(s) in sizes]
        noise = draw(st.lists(st.sampled_from(rest), max_size=2, unique=True))
        extra = sorted(set(extra) ^ set(noise))
    elif dens == 0:
        extra: list[int] = []
    elif dens == 8:
        extra = rest
    else:
        flags = draw(st.lists(st.integers(0, 7), min_size=len(rest), max_size=len(rest)))
        extra = [s for s, f in zip(rest, flags) if f < dens]
    return sorted(mins | set(extra))


def scale_of(v) -> float:
    return max([abs(float(x)) for x in v] + [1.0])


__all__ = [name for name in dir() if not name.startswith("_")]
