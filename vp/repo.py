"""Thin adapter to the code under test (imported from /repo's working tree via PYTHONPATH)."""
from __future__ import annotations

from functools import partial

import numpy as np

from incomplete_cooperative.bounds import (BOUNDS, compute_bounds_superadditive_monotone_approx_cached)
from incomplete_cooperative.coalitions import Coalition
from incomplete_cooperative.game import IncompleteCooperativeGame


def computer(name: str):
    """Bound computer by registry name; 'sam_apx_<r>' for any r (the registered ones are the same partials)."""
    if name in BOUNDS:
        return BOUNDS[name]
    if name.startswith("sam_apx_"):
        return partial(compute_bounds_superadditive_monotone_approx_cached, repetitions=int(name.split("_")[-1]))
    if name == "none":
        return None
    raise KeyError(name)


def new_game(n: int, comp: str = "none") -> IncompleteCooperativeGame:
    c = computer(comp)
    return IncompleteCooperativeGame(n, c) if c is not None else IncompleteCooperativeGame(n)


def coal(mask: int) -> Coalition:
    return Coalition(int(mask))


def coal_listed(mask: int) -> Coalition:
    """The same coalition the way a user may write it down: from a listing of its players - descending, with the largest player
    named twice when the mask has an odd number of players (two overlapping teams concatenated).  from_players treats the
    listing as a set."""
    mask = int(mask)
    players = [i for i in range(mask.bit_length()) if mask >> i & 1][::-1]
    if len(players) % 2 == 1:
        players = players + players[:1]
    return Coalition.from_players(players)


def coals(masks) -> list[Coalition]:
    return [Coalition(int(m)) for m in masks]


def set_knowledge(game, v, known) -> None:
    """Bulk reset: exactly ``known`` is known afterwards, with the values of v."""
    ks = sorted(known)
    game.set_known_values([v[k] for k in ks], coals(ks))


def full_game(n: int, v, comp: str = "none") -> IncompleteCooperativeGame:
    g = new_game(n, comp)
    g.set_values(np.array(v, dtype=float))
    return g


def table(game) -> tuple[list[bool], list[float], list[float]]:
    """(known flags, lower, upper) through the public getters, as python lists."""
    return ([bool(x) for x in game.are_values_known()],
            [float(x) for x in game.get_lower_bounds()],
            [float(x) for x in game.get_upper_bounds()])


def table_bytes(game) -> bytes:
    return (np.asarray(game.are_values_known()).tobytes() + np.asarray(game.get_lower_bounds(), dtype=float).tobytes()
            + np.asarray(game.get_upper_bounds(), dtype=float).tobytes())
