"""The repository's own generator registry, made deterministic for the harness.

``lib_spec(name, n, seed)`` calls GENERATORS[name](n, default_rng(seed)) after re-seeding the two pieces of
module-level state some families use (the unseeded module generator of the graph-weight families, the round-robin
owner of 'predictible_factory'), and returns a plain spec {"kind": "table", "n", "v"} or {"kind": "graph", "n", "matrix"}
that can be stored in a case and turned back into a game object with ``spec_game``.
"""
from __future__ import annotations

import numpy as np

SKIP = {"convex"}   # needs pyfmtools, absent in this sandbox

SAM_FAMILIES = ["xos", "xos_one", "xos2", "xos3", "xos12", "xos_norm_additive", "xos2_norm_additive", "xos3_norm_additive",
                "xos12_norm_additive", "xs", "oxs", "xs2", "xs3", "xs6", "k_budget_generator", "covg_fn_generator"]
CONTINUOUS = ["noisy_factory", "noisy_factory_square", "noisy_factory_exp", "noisy_factory_fixed", "xos", "xos2", "xos3",
              "xos12", "oxs", "xs", "xs6"]


def names() -> list[str]:
    from incomplete_cooperative.generators import GENERATORS
    return [k for k in GENERATORS if k not in SKIP]


def ignores_seed(name: str) -> bool:
    """Documented exceptions: graph-weight-distribution family (module-level generator) and the round-robin factory."""
    if name in ("predictible_factory", "xos_one"):
        return name == "predictible_factory"
    return name == "graph" or name.startswith(("graph_tirangular", "graph_increasing", "graph_decreasing", "graph_beta_",
                                               "graph_03_03", "graph_poiss_"))


def reseed_module_state(seed: int) -> None:
    from incomplete_cooperative import generators
    generators._gen.bit_generator.state = np.random.default_rng(seed).bit_generator.state
    generators._LAST_OWNER = seed % 7


def lib_game(name: str, n: int, seed: int):
    from incomplete_cooperative.generators import GENERATORS
    reseed_module_state(seed)
    return GENERATORS[name](n, np.random.default_rng(seed))


def game_spec(game) -> dict:
    from incomplete_cooperative.graph_game import GraphCooperativeGame
    if isinstance(game, GraphCooperativeGame):
        return {"kind": "graph", "n": game.number_of_players, "matrix": [[float(x) for x in row] for row in game._graph_matrix]}
    return {"kind": "table", "n": game.number_of_players, "v": [float(x) for x in game.get_values()]}


def lib_spec(name: str, n: int, seed: int) -> dict:
    spec = game_spec(lib_game(name, n, seed))
    spec["how"] = f"lib:{name}({seed})"
    return spec


def spec_game(spec: dict, comp: str = "none"):
    from incomplete_cooperative.graph_game import GraphCooperativeGame
    from . import repo
    if spec["kind"] == "graph":
        return GraphCooperativeGame(np.array(spec["matrix"], dtype=float))
    return repo.full_game(spec["n"], spec["v"], comp)


def spec_values(spec: dict) -> list[float]:
    """Value table of a spec without going through the repository (graph: sum of upper-triangle weights)."""
    if spec["kind"] == "table":
        return list(spec["v"])
    n, m = spec["n"], spec["matrix"]
    out = []
    for s in range(1 << n):
        ps = [i for i in range(n) if s >> i & 1]
        tot = 0.0
        for a in range(len(ps)):
            for b in range(a + 1, len(ps)):
                tot += m[ps[a]][ps[b]]
        out.append(tot)
    return out
