"""Coverage-guided extra for C17 (not the deciding step): the game-object operation interpreter of vp/props/c17.py driven
by libFuzzer through atheris, with Hypothesis decoding the bytes (``fuzz_one_input``) so every input is a well-formed
operation list.  Run as its own process (libFuzzer ends the process itself):

    python -m vp.fuzz17 <out.json> <runs> <seed>

Writes {"runs": N, "failure": null | {"case": ..., "msgs": [...]}} to out.json *before* re-raising a failure, so the parent
can turn the crash into a replayable case.
"""
from __future__ import annotations

import json
import sys

from hypothesis import given, settings, HealthCheck, strategies as st

from .core import Result

VALUES = st.one_of(st.integers(-64, 64).map(float), st.integers(-4096, 4096).map(lambda x: x / 64.0),
                   st.floats(-1e6, 1e6, allow_nan=False, allow_subnormal=False))

AOP = st.tuples(st.sampled_from(["set", "unset", "reveal", "unreveal", "set_values", "set_known", "set_uppers", "set_lowers",
                                 "set_upper", "set_lower", "copy", "neg", "neg_involution"]),
                st.integers(0, 7), st.integers(0, 255), VALUES, st.booleans(),
                st.lists(st.integers(0, 31), max_size=8, unique=True), st.lists(VALUES, min_size=32, max_size=32))

STATE = {"out": None, "count": 0}


def concretise(sim, aop):
    """Abstract operation -> concrete operation valid in the current state (or None)."""
    kind, t, i, x, allflag, masks, xs = aop
    n = sim.n
    size = 1 << n
    t %= len(sim.objects)
    m = sim.models[t]
    unknown = [s for s, r in m.rows.items() if not r[0]]
    known = [s for s, r in m.rows.items() if r[0]]
    if kind in ("set", "unset"):
        return [kind, t, i % size, x] if kind == "set" else [kind, t, i % size]
    if kind in ("reveal", "set_upper", "set_lower"):
        return [kind, t, unknown[i % len(unknown)], x] if unknown else None
    if kind == "unreveal":
        return [kind, t, known[i % len(known)]] if known else None
    if kind in ("set_values", "set_known", "set_uppers", "set_lowers"):
        if allflag:
            return [kind, t, None, xs[:size]]
        ms = sorted({s % size for s in masks})
        return [kind, t, ms, xs[:len(ms)]]        # ms may be empty: an empty subset, not "all coalitions"
    if kind in ("copy", "neg"):
        return [kind, t] if len(sim.objects) < 4 else None
    return [kind, t]


def run_one(n: int, aops) -> None:
    from .props import c17
    sim = c17.Sim(n)
    case = {"n": n, "ops": [], "probes": {}}
    res = Result()
    sim.check(res, [])
    for aop in aops:
        op = concretise(sim, aop)
        if op is None:
            continue
        case["ops"].append(op)
        if op[0] == "neg_involution":
            c17._neg_involution(sim, op[1], res)
        else:
            sim.apply(op)
        sim.check(res, [])
        if res.failures:
            with open(STATE["out"], "w") as f:
                json.dump({"runs": STATE["count"], "failure": {"case": case, "msgs": res.failures}}, f)
            raise AssertionError(res.failures[0])


@settings(database=None, deadline=None, suppress_health_check=list(HealthCheck))
@given(st.integers(1, 5), st.lists(AOP, max_size=30))
def fuzz_target(n, aops):
    STATE["count"] += 1
    run_one(n, aops)


def main(argv):
    out, runs, seed = argv[0], int(argv[1]), int(argv[2])
    art = argv[3] if len(argv) > 3 else "./"
    STATE["out"] = out
    with open(out, "w") as f:
        json.dump({"runs": 0, "failure": None, "completed": False}, f)
    import atheris
    with atheris.instrument_imports(include=["incomplete_cooperative"]):
        import incomplete_cooperative.game  # noqa: F401
        import incomplete_cooperative.coalitions  # noqa: F401

    def one(data: bytes):
        fuzz_target.hypothesis.fuzz_one_input(data)
        if STATE["count"] % 500 == 0:
            with open(out, "w") as f:
                json.dump({"runs": STATE["count"], "failure": None, "completed": False}, f)

    atheris.Setup([sys.argv[0], f"-runs={runs}", f"-seed={seed}", "-max_len=2048", "-print_final_stats=0", "-verbosity=0", f"-artifact_prefix={art}"], one)
    atheris.Fuzz()


if __name__ == "__main__":
    main(sys.argv[1:])
