"""Sensitivity harness: apply hand-written mutants to a scratch worktree of /repo and run quick checks against it.

    python3 tools/mutants.py [--only NAME_SUBSTR] [--props C01,C03] [--tier quick]

The scratch worktree lives under /tmp and is removed afterwards; /repo itself is never touched (checks are pointed
at the worktree with VERIF_REPO).  A mutant is (name, file, old, new, expected-catchers).
"""
from __future__ import annotations

import argparse
import json
import os
import subprocess
import sys
import time
from pathlib import Path

VERIF = Path(__file__).resolve().parent.parent
SCRATCH = Path("/tmp/vp-mutants")
B = "incomplete_cooperative/bounds.py"

MUTANTS = [
    # --- bounds (C01-C04, C07, C08) ---------------------------------------------------------------------------
    ("cached-upper-subtracts-upper", B,
     "upper_bound = np.min(game.get_lower_bounds()[known_super_coalitions] - game.get_lower_bounds()[complementary_coalitions])\n        game.set_upper_bound(upper_bound, Coalition(coalition))\n\n\ndef compute_bounds_superadditive_monotone",
     "upper_bound = np.min(game.get_lower_bounds()[known_super_coalitions] - game.get_upper_bounds()[complementary_coalitions])\n        game.set_upper_bound(upper_bound, Coalition(coalition))\n\n\ndef compute_bounds_superadditive_monotone",
     ["C01", "C02", "C03"]),
    ("cached-reversed-order", B,
     "    unknown_sorted = all_sorted[np.logical_not(game.are_values_known()[all_sorted])]\n    for coalition in unknown_sorted:\n        sub_coalitions = all_coalitions[coal_structure[coalition] == 1]\n        complementary_coalitions = coalition ^ sub_coalitions\n        lower_bound = np.max(game.get_lower_bounds()[sub_coalitions] + game.get_lower_bounds()[complementary_coalitions])\n        game.set_lower_bound(lower_bound, Coalition(coalition))\n\n    for coalition in unknown_sorted:\n        super_coalitions = all_coalitions[coal_structure[coalition] == 2]\n        known_super_coalitions = super_coalitions[game.are_values_known()[super_coalitions]]\n        complementary_coalitions = coalition ^ known_super_coalitions\n        upper_bound = np.min(game.get_lower_bounds()[known_super_coalitions] - game.get_lower_bounds()[complementary_coalitions])",
     "    unknown_sorted = all_sorted[np.logical_not(game.are_values_known()[all_sorted])][::-1]\n    for coalition in unknown_sorted:\n        sub_coalitions = all_coalitions[coal_structure[coalition] == 1]\n        complementary_coalitions = coalition ^ sub_coalitions\n        lower_bound = np.max(game.get_lower_bounds()[sub_coalitions] + game.get_lower_bounds()[complementary_coalitions])\n        game.set_lower_bound(lower_bound, Coalition(coalition))\n\n    for coalition in unknown_sorted:\n        super_coalitions = all_coalitions[coal_structure[coalition] == 2]\n        known_super_coalitions = super_coalitions[game.are_values_known()[super_coalitions]]\n        complementary_coalitions = coalition ^ known_super_coalitions\n        upper_bound = np.min(game.get_lower_bounds()[known_super_coalitions] - game.get_lower_bounds()[complementary_coalitions])",
     ["C02", "C03", "C08"]),
    ("uncached-min-instead-of-max", B,
     "lower_bound = np.max(game.get_lower_bounds(sub_coalitions) + game.get_lower_bounds(complementary_coalitions))",
     "lower_bound = np.min(game.get_lower_bounds(sub_coalitions) + game.get_lower_bounds(complementary_coalitions))",
     ["C02", "C03"]),
    ("uncached-skip-grand-superset", B,
     "        known_super_coalitions = [x for x in get_super_coalitions(coalition, game.number_of_players)\n                                  if game.is_value_known(x)]\n        assert known_super_coalitions",
     "        known_super_coalitions = [x for x in get_super_coalitions(coalition, game.number_of_players)\n                                  if game.is_value_known(x)]\n        if len(known_super_coalitions) > 2:\n            known_super_coalitions = known_super_coalitions[:-1]\n        assert known_super_coalitions",
     ["C02", "C03"]),
    ("cached-structure-self-is-sub", B,
     "        all_coals[coalition] = 0\n        all_coals[0] = -2",
     "        all_coals[0] = -2",
     ["C01", "C02", "C03"]),
    ("sam-closure-over-subcoalitions", B,
     "            super_coalitions = all_coalitions[np.logical_or(coal_structure[coalition] == 2, coal_structure[coalition] == 0)]\n            lower_bound = np.max(game.get_lower_bounds()[super_coalitions])",
     "            super_coalitions = all_coalitions[np.logical_or(coal_structure[coalition] == 1, coal_structure[coalition] == 0)]\n            lower_bound = np.max(game.get_lower_bounds()[super_coalitions])",
     ["C04"]),
    ("sam-drop-self-term", B,
     "                    np.logical_or(coal_structure[coalition] == 1, coal_structure[coalition] == 0)\n                ]",
     "                    coal_structure[coalition] == 1\n                ]",
     ["C04"]),
    ("sam-skip-known-sub-min", B,
     "        upper_bound = min(np.min(game.get_lower_bounds()[known_super_coalitions] - game.get_lower_bounds()[complementary_coalitions]),\n                          np.min(game.get_known_values()[known_sub_coalitions]))",
     "        upper_bound = np.min(game.get_lower_bounds()[known_super_coalitions] - game.get_lower_bounds()[complementary_coalitions])",
     ["C04"]),
    ("cached-upper-keeps-smaller-stale", B,
     "        upper_bound = np.min(game.get_lower_bounds()[known_super_coalitions] - game.get_lower_bounds()[complementary_coalitions])\n        game.set_upper_bound(upper_bound, Coalition(coalition))\n\n\ndef compute_bounds_superadditive_monotone",
     "        upper_bound = np.min(game.get_lower_bounds()[known_super_coalitions] - game.get_lower_bounds()[complementary_coalitions])\n        if game.get_upper_bound(Coalition(coalition)) != 0 and game.get_upper_bound(Coalition(coalition)) < upper_bound:\n            continue\n        game.set_upper_bound(upper_bound, Coalition(coalition))\n\n\ndef compute_bounds_superadditive_monotone",
     ["C08"]),
    # --- exploitability / shapley / norms (C05-C07) ---------------------------------------------------------------
    ("shapley-weight-size-plus-one", "incomplete_cooperative/shapley.py",
     "    coalition_contributions = coalition_contribution_coefficients[list(map(\n        len, coalitions_without_player))]",
     "    coalition_contributions = coalition_contribution_coefficients[list(map(\n        lambda c: min(len(c) + 1, game.number_of_players - 1), coalitions_without_player))]",
     ["C05", "C06"]),
    ("maxgain-lower-on-own-coalitions-of-size-2", "incomplete_cooperative/exploitability.py",
     "        coalitions_with_player = (1 if player in coalition else 0 for coalition in all_coalitions(game))",
     "        coalitions_with_player = (1 if player in coalition and len(coalition) != 2 else 0 for coalition in all_coalitions(game))",
     ["C05"]),
    ("norms-swap-l2-linf", "incomplete_cooperative/norms.py",
     "l2_norm = partial(lp_norm, ord=2)\nl1_norm = partial(lp_norm, ord=1)\nlinf_norm = partial(lp_norm, ord=np.inf)",
     "l2_norm = partial(lp_norm, ord=np.inf)\nl1_norm = partial(lp_norm, ord=1)\nlinf_norm = partial(lp_norm, ord=2)",
     ["C07"]),
    # --- game object (C17, C08) -------------------------------------------------------------------------------------
    ("unset-keeps-bounds", "incomplete_cooperative/game.py",
     "        self._values[coalition.id, self._values_upper_index] = 0\n        self._values[coalition.id, self._values_lower_index] = 0\n        self._values[coalition.id, self._values_is_known_index] = 0",
     "        self._values[coalition.id, self._values_is_known_index] = 0",
     ["C17"]),
    ("bulk-upper-setter-no-known-mask", "incomplete_cooperative/game.py",
     "        relevant_positions = np.invert(self.are_values_known()) * self._get_coalition_map(coalitions, len(values))\n        np.copyto(self._values[:, self._values_upper_index], all_values, where=relevant_positions)",
     "        relevant_positions = self._get_coalition_map(coalitions, len(values))\n        np.copyto(self._values[:, self._values_upper_index], all_values, where=relevant_positions)",
     ["C17"]),
    ("copy-shares-table", "incomplete_cooperative/game.py",
     "        new._values = np.copy(self._values)",
     "        new._values = self._values",
     ["C17"]),

    # --- shapley (C06) ----------------------------------------------------------------------------------------------
    ("shapley-divide-by-n-minus-1-factorial", "incomplete_cooperative/shapley.py",
     "                                     _get_contributions(game.number_of_players), factorial(game.number_of_players))",
     "                                     _get_contributions(game.number_of_players), factorial(game.number_of_players - 1))",
     ["C06", "C05"]),
    ("exclude-coalition-keeps-overlaps-of-size-3", "incomplete_cooperative/coalitions.py",
     "    return (coalition for coalition in coalitions if (coalition & exclude).id == 0)",
     "    return (coalition for coalition in coalitions if (coalition & exclude).id == 0 or (len(exclude) >= 2 and len(coalition & exclude) == 1))",
     ["C18"]),
    # --- env (C08, C09, C16) ------------------------------------------------------------------------------------------
    ("unstep-without-recompute", "incomplete_cooperative/icg_gym.py",
     "        self.incomplete_game.unreveal_value(chosen_coalition)\n        self.incomplete_game.compute_bounds()",
     "        self.incomplete_game.unreveal_value(chosen_coalition)",
     ["C08", "C09"]),
    ("state-from-full-game", "incomplete_cooperative/icg_gym.py",
     "        normalized_values = self.normalized_game.get_values(self.explorable_coalitions)",
     "        normalized_values = self.full_game.get_values(self.explorable_coalitions)",
     ["C09"]),
    ("done-ignores-budget-off-by-one", "incomplete_cooperative/icg_gym.py",
     "self.done_after_n_actions is not None and self.steps_taken >= self.done_after_n_actions",
     "self.done_after_n_actions is not None and self.steps_taken > self.done_after_n_actions",
     ["C09"]),
    ("reset-keeps-steps-taken", "incomplete_cooperative/icg_gym.py",
     "        self.incomplete_game.compute_bounds()\n        self.steps_taken = 0\n\n        return self.state, {\"game\": self.full_game}",
     "        self.incomplete_game.compute_bounds()\n\n        return self.state, {\"game\": self.full_game}",
     ["C09"]),
    ("step-reward-before-compute", "incomplete_cooperative/icg_gym.py",
     "                                          chosen_coalition)\n        self.incomplete_game.compute_bounds()\n        self.steps_taken += 1\n\n        return self.state, self.reward, self.done, False, {\"chosen_coalition\": chosen_coalition.id}",
     "                                          chosen_coalition)\n        reward = self.reward\n        self.incomplete_game.compute_bounds()\n        self.steps_taken += 1\n\n        return self.state, reward, self.done, False, {\"chosen_coalition\": chosen_coalition.id}",
     ["C09"]),
    ("linear-candidates-ignore-mask", "incomplete_cooperative/icg_gym_linear.py",
     "        candidates = np.where((self.subset_sizes == coalition_size) * self.icg_gym.action_masks())[0]",
     "        candidates = np.where(self.subset_sizes == coalition_size)[0]",
     ["C16"]),
    ("linear-mask-needs-two", "incomplete_cooperative/icg_gym_linear.py",
     "        return self._sum_values_of_the_same_size(exponential_mask).astype(bool)",
     "        return self._sum_values_of_the_same_size(exponential_mask) > 1",
     ["C16"]),
    # --- generators (C10) ---------------------------------------------------------------------------------------------------
    ("k-budget-max", "incomplete_cooperative/generators.py",
     "        game.set_value(-min(k, len(coalition)), coalition)\n    assert is_sam(game)",
     "        game.set_value(-max(k, len(coalition)) if len(coalition) else 0, coalition)",
     ["C10"]),
    ("xs-ignores-generator", "incomplete_cooperative/generators.py",
     "        singletons = np.array([generator.random() for _ in range(number_of_players)])  # type: ignore[assignment]",
     "        singletons = np.array([_gen.random() for _ in range(number_of_players)])  # type: ignore[assignment]",
     ["C10"]),
    ("xos-normalize-additive-breaks-subadditivity", "incomplete_cooperative/generators.py",
     "    osx_values = np.max(np.array(additive_values), axis=0)",
     "    osx_values = np.max(np.array(additive_values), axis=0)\n    if number_of_players >= 5:\n        osx_values[3] = osx_values[1] + osx_values[2] + 0.5",
     ["C10"]),
    # --- exhaustive search (C11) ----------------------------------------------------------------------------------------------
    ("sequences-skip-last-action", "incomplete_cooperative/gameplay.py",
     "    return chain.from_iterable(map(list, combinations(possible_actions, i))\n                               for i in range(max_size + 1))",
     "    return chain.from_iterable(map(list, combinations(possible_actions if i < 3 else possible_actions[:-1], i))\n                               for i in range(max_size + 1))",
     ["C11"]),
    ("include-dropped-for-empty-sequence", "incomplete_cooperative/gameplay.py",
     "    if include:\n        action_sequence = list(set(action_sequence).union(include))",
     "    if include and action_sequence:\n        action_sequence = list(set(action_sequence).union(include))\n    elif include:\n        action_sequence = [x for x in include if len(x) in (0, 1) or len(x) == full_game.number_of_players]",
     ["C11"]),
    ("best-states-keeps-first-of-size", "incomplete_cooperative/run/best_states.py",
     "                np.mean(best_exploitabilities[steps]) > np.mean(sample_values[:, i]):",
     "                (steps < 2 and np.mean(best_exploitabilities[steps]) > np.mean(sample_values[:, i])):",
     ["C11"]),
    # --- evaluate (C12) -----------------------------------------------------------------------------------------------------------
    ("evaluate-records-action-index", "incomplete_cooperative/evaluation.py",
     "        actions_all[episode] = chosen_coalition",
     "        actions_all[episode] = action",
     ["C12"]),
    ("evaluate-pool-results-reversed", "incomplete_cooperative/evaluation.py",
     "            exploitabilities_and_actions = p.starmap(eval_one, call_arg_sequence)",
     "            exploitabilities_and_actions = p.starmap(eval_one, call_arg_sequence)[::-1]",
     ["C12"]),
    # --- solvers (C13) --------------------------------------------------------------------------------------------------------------
    ("greedy-tie-last-index", "incomplete_cooperative/solvers/greedy.py",
     "        return next(best_actions)",
     "        return list(best_actions)[-1]",
     ["C13"]),
    ("largest-picks-smallest", "incomplete_cooperative/solvers/largest_coalition.py",
     "        max_coalition_size = max(map(len, valid_coalitions))",
     "        max_coalition_size = min(map(len, valid_coalitions))",
     ["C13"]),
    ("greedy-worst-ignored", "incomplete_cooperative/solvers/greedy.py",
     "        max_action_value = max(action_values) if not self.worst else min(action_values)  # type: ignore[type-var]",
     "        max_action_value = max(action_values)  # type: ignore[type-var]",
     ["C13"]),
    ("expected-greedy-argmin-of-max", "incomplete_cooperative/run/greedy.py",
     "            best_action_index = int(np.argmin(np.mean(expected_exploitabilities, axis=1)))",
     "            best_action_index = int(np.argmin(np.max(expected_exploitabilities, axis=1)))",
     ["C13"]),
    # --- regret (C14) ------------------------------------------------------------------------------------------------------------------
    ("regret-uniform-includes-used", "incomplete_cooperative/regret.py",
     "            positive_regret = np.ones(self.number_of_coalitions)\n            used_coalitions = list(Coalition(metacoalition).players)\n            positive_regret[used_coalitions] = 0\n        return positive_regret / positive_regret.sum()",
     "            positive_regret = np.ones(self.number_of_coalitions)\n        return positive_regret / positive_regret.sum()",
     ["C14"]),
    ("regret-load-forgets-iteration", "incomplete_cooperative/regret.py",
     "        ret.iteration = params[\"iteration\"]\n",
     "",
     ["C14"]),
    ("regret-plus-clips-strategy", "incomplete_cooperative/regret.py",
     "            self.cumulative_regret *= self.cumulative_regret > 0",
     "            self.cumulative_strategy *= self.cumulative_strategy > 0",
     ["C14"]),
    ("regret-no-expectation-subtracted-at-root", "incomplete_cooperative/regret.py",
     "        self.cumulative_regret += q_values - experienced_losses[np.arange(self.number_of_regret_minimizers), None]",
     "        experienced_losses[0] = 0\n        self.cumulative_regret += q_values - experienced_losses[np.arange(self.number_of_regret_minimizers), None]",
     ["C14"]),
    # --- normalisation (C15) -----------------------------------------------------------------------------------------------------------------
    ("denormalize-skips-singletons-of-last-player", "incomplete_cooperative/normalize.py",
     "        for i in coalition.players:\n            value += singleton_values[i]",
     "        for i in coalition.players:\n            if i < len(singleton_values) - 1 or len(coalition) == 1:\n                value += singleton_values[i]",
     ["C15"]),
    ("graph-normalize-by-edge-count", "incomplete_cooperative/normalize.py",
     "    game._graph_matrix /= grand_coalition_value",
     "    game._graph_matrix /= max(grand_coalition_value, np.count_nonzero(game._graph_matrix) / 64)",
     ["C15"]),
    # --- game object (C17) ----------------------------------------------------------------------------------------------------------------------
    ("neg-writes-into-self", "incomplete_cooperative/game.py",
     "        ret._values[:, self._values_upper_index] = -self._values[:, self._values_lower_index]\n        return ret",
     "        ret._values[:, self._values_upper_index] = -ret._values[:, self._values_lower_index]\n        return ret",
     ["C17"]),
    ("known-values-nan-in-live-table", "incomplete_cooperative/game.py",
     "        all_values = np.copy(self.get_upper_bounds())",
     "        all_values = self.get_upper_bounds()",
     ["C17"]),
    # --- coalitions / predicates (C18) --------------------------------------------------------------------------------------------------------------
    ("ids-sub-coalitions-off-by-one", "incomplete_cooperative/coalition_ids.py",
     "    max_num_players = np.max(players(coalition, number_of_players), initial=0) + 1",
     "    max_num_players = np.max(players(coalition, number_of_players), initial=0) + (1 if coalition != 2**number_of_players - 1 or number_of_players < 5 else 0)",
     ["C18", "C03"]),
    ("coalition-sub-as-xor", "incomplete_cooperative/coalitions.py",
     "            return Coalition(self.id & ~other.id)",
     "            return Coalition(self.id ^ (other.id & self.id) if len(other) != 3 else self.id ^ other.id)",
     ["C18"]),
    ("is-superadditive-skips-grand", "incomplete_cooperative/game_properties.py",
     "    values = game.get_values()\n    for U in get_all_coalitions(game.number_of_players):\n        Ss = sub_coalitions(U, game.number_of_players)\n        Ts = U - Ss",
     "    values = game.get_values()\n    for U in get_all_coalitions(game.number_of_players)[:-1]:\n        Ss = sub_coalitions(U, game.number_of_players)\n        Ts = U - Ss",
     ["C18"]),
    ("monotone-strict", "incomplete_cooperative/game_properties.py",
     "        if not np.all(values[Ss] >= values[U]):",
     "        if not np.all(values[Ss[:-1]] > values[U]) and len(Ss) > 1:",
     ["C18"]),
    # --- save (C19, C20) -----------------------------------------------------------------------------------------------------------------------------
    ("save-overwrites-existing-name", "incomplete_cooperative/run/save.py",
     "    if unique_name in data.keys():\n        return\n",
     "",
     ["C19"]),
    ("save-drops-earlier-entries-beyond-three", "incomplete_cooperative/run/save.py",
     "    data.update({unique_name: output.json})",
     "    if len(data) >= 3:\n        data.pop(next(iter(data)))\n    data.update({unique_name: output.json})",
     ["C19"]),
    ("from-json-transposes-square", "incomplete_cooperative/run/save.py",
     "        data[\"data\"] = np.array(data[\"data\"], dtype=Value)",
     "        data[\"data\"] = np.array(data[\"data\"], dtype=Value).T.copy() if np.array(data[\"data\"]).ndim == 2 and len(data[\"data\"]) == len(data[\"data\"][0]) else np.array(data[\"data\"], dtype=Value)",
     ["C19"]),
    ("save-copy-then-delete", "incomplete_cooperative/run/save.py",
     "    os.replace(tmp_path, path)",
     "    import shutil\n    shutil.copyfile(tmp_path, path)\n    os.remove(tmp_path)",
     ["C20"]),
    ("save-rename-before-close", "incomplete_cooperative/run/save.py",
     "    with tmp_path.open(\"w\") as f:\n        json.dump(data, f, default=json_serializer)\n    os.replace(tmp_path, path)",
     "    with tmp_path.open(\"w\") as f:\n        json.dump(data, f, default=json_serializer)\n        os.replace(tmp_path, path)",
     ["C20"]),
    ("save-in-place-when-small", "incomplete_cooperative/run/save.py",
     "    tmp_path = path.with_name(path.name + \".tmp\")",
     "    tmp_path = path.with_name(path.name + \".tmp\") if len(data) > 2 else path",
     ["C20"]),
]


def sh(cmd, **kw):
    return subprocess.run(cmd, shell=True, text=True, capture_output=True, **kw)


def main() -> int:
    ap = argparse.ArgumentParser()
    ap.add_argument("--only", default="")
    ap.add_argument("--props", default="")
    ap.add_argument("--tier", default="quick")
    args = ap.parse_args()
    repo = os.environ.get("VERIF_REPO_SRC", "/repo")
    sh(f"git -C {repo} worktree remove --force {SCRATCH}")
    r = sh(f"git -C {repo} worktree add --detach {SCRATCH} HEAD")
    if r.returncode:
        print(r.stderr)
        return 2
    rows = []
    try:
        for name, file, old, new, expected in MUTANTS:
            if args.only and args.only not in name:
                continue
            path = SCRATCH / file
            src = path.read_text()
            if src.count(old) != 1:
                print(f"!! mutant {name}: anchor found {src.count(old)} times - skipped")
                rows.append((name, "ANCHOR-MISSING", {}))
                continue
            path.write_text(src.replace(old, new))
            props = [p for p in (args.props.split(",") if args.props else expected) if p]
            verdicts = {}
            for p in props:
                t0 = time.time()
                env = dict(os.environ, VERIF_REPO=str(SCRATCH))
                out = subprocess.run([str(VERIF / "check"), p, args.tier], text=True, capture_output=True, env=env, cwd=VERIF)
                caught = out.returncode == 1 and "VIOLATION" in out.stdout
                verdicts[p] = ("CAUGHT" if caught else f"missed(exit {out.returncode})") + f" {time.time() - t0:.0f}s"
                # replays written against a mutant are not findings about /repo: move them to the corpus
                for line in out.stdout.splitlines():
                    if line.startswith("VIOLATION") and "replay=" in line:
                        rp = VERIF / line.split("replay=")[1].strip()
                        if rp.exists():
                            dest = VERIF / "corpus" / p
                            dest.mkdir(parents=True, exist_ok=True)
                            rp.rename(dest / f"mutant-{name}.json")
                if out.returncode == 2:
                    print(out.stderr[-2000:])
            path.write_text(src)
            rows.append((name, "ok", verdicts))
            print(f"{name:45s} " + "  ".join(f"{p}:{v}" for p, v in verdicts.items()), flush=True)
    finally:
        sh(f"git -C {repo} worktree remove --force {SCRATCH}")
        # restore evidence of the unchanged tree is the caller's business (evidence files were rewritten by mutant runs)
    missed = [(n, p) for n, st, v in rows for p, x in v.items() if not x.startswith("CAUGHT")]
    print(json.dumps({"mutants": len(rows), "missed": missed}))
    return 0


if __name__ == "__main__":
    sys.exit(main())
