"""Sensitivity harness: apply hand-written mutants to a scratch worktree of /repo and run quick checks against it.

    python3 tools/mutants.py [--only NAME_SUBSTR] [--props C01,C03] [--tier quick]

The scratch worktree lives under /tmp and is removed afterwards; /repo itself is never touched (checks are pointed
at the worktree with VERIF_REPO).  A mutant is (name, file, old, new, expected-catchers).
"""
from __future__ import annotations

import argparse
import json
import os
import subprocess
import sys
import time
from pathlib import Path

VERIF = Path(__file__).resolve().parent.parent
SCRATCH = Path("/tmp/vp-mutants")
B = "incomplete_cooperative/bounds.py"

MUTANTS = [
    # --- bounds (C01-C04, C07, C08) ---------------------------------------------------------------------------
    ("cached-upper-subtracts-upper", B,
     "upper_bound = np.min(game.get_lower_bounds()[known_super_coalitions] - game.get_lower_bounds()[complementary_coalitions])\n        game.set_upper_bound(upper_bound, Coalition(coalition))\n\n\ndef compute_bounds_superadditive_monotone",
     "upper_bound = np.min(game.get_lower_bounds()[known_super_coalitions] - game.get_upper_bounds()[complementary_coalitions])\n        game.set_upper_bound(upper_bound, Coalition(coalition))\n\n\ndef compute_bounds_superadditive_monotone",
     ["C01", "C02", "C03"]),
    ("cached-reversed-order", B,
     "    unknown_sorted = all_sorted[np.logical_not(game.are_values_known()[all_sorted])]\n    for coalition in unknown_sorted:\n        sub_coalitions = all_coalitions[coal_structure[coalition] == 1]\n        complementary_coalitions = coalition ^ sub_coalitions\n        lower_bound = np.max(game.get_lower_bounds()[sub_coalitions] + game.get_lower_bounds()[complementary_coalitions])\n        game.set_lower_bound(lower_bound, Coalition(coalition))\n\n    for coalition in unknown_sorted:\n        super_coalitions = all_coalitions[coal_structure[coalition] == 2]\n        known_super_coalitions = super_coalitions[game.are_values_known()[super_coalitions]]\n        complementary_coalitions = coalition ^ known_super_coalitions\n        upper_bound = np.min(game.get_lower_bounds()[known_super_coalitions] - game.get_lower_bounds()[complementary_coalitions])",
     "    unknown_sorted = all_sorted[np.logical_not(game.are_values_known()[all_sorted])][::-1]\n    for coalition in unknown_sorted:\n        sub_coalitions = all_coalitions[coal_structure[coalition] == 1]\n        complementary_coalitions = coalition ^ sub_coalitions\n        lower_bound = np.max(game.get_lower_bounds()[sub_coalitions] + game.get_lower_bounds()[complementary_coalitions])\n        game.set_lower_bound(lower_bound, Coalition(coalition))\n\n    for coalition in unknown_sorted:\n        super_coalitions = all_coalitions[coal_structure[coalition] == 2]\n        known_super_coalitions = super_coalitions[game.are_values_known()[super_coalitions]]\n        complementary_coalitions = coalition ^ known_super_coalitions\n        upper_bound = np.min(game.get_lower_bounds()[known_super_coalitions] - game.get_lower_bounds()[complementary_coalitions])",
     ["C02", "C03", "C08"]),
    ("uncached-min-instead-of-max", B,
     "lower_bound = np.max(game.get_lower_bounds(sub_coalitions) + game.get_lower_bounds(complementary_coalitions))",
     "lower_bound = np.min(game.get_lower_bounds(sub_coalitions) + game.get_lower_bounds(complementary_coalitions))",
     ["C02", "C03"]),
    ("uncached-skip-grand-superset", B,
     "        known_super_coalitions = [x for x in get_super_coalitions(coalition, game.number_of_players)\n                                  if game.is_value_known(x)]\n        assert known_super_coalitions",
     "        known_super_coalitions = [x for x in get_super_coalitions(coalition, game.number_of_players)\n                                  if game.is_value_known(x)]\n        if len(known_super_coalitions) > 2:\n            known_super_coalitions = known_super_coalitions[:-1]\n        assert known_super_coalitions",
     ["C02", "C03"]),
    ("cached-structure-self-is-sub", B,
     "        all_coals[coalition] = 0\n        all_coals[0] = -2",
     "        all_coals[0] = -2",
     ["C01", "C02", "C03"]),
    ("sam-closure-over-subcoalitions", B,
     "            super_coalitions = all_coalitions[np.logical_or(coal_structure[coalition] == 2, coal_structure[coalition] == 0)]\n            lower_bound = np.max(game.get_lower_bounds()[super_coalitions])",
     "            super_coalitions = all_coalitions[np.logical_or(coal_structure[coalition] == 1, coal_structure[coalition] == 0)]\n            lower_bound = np.max(game.get_lower_bounds()[super_coalitions])",
     ["C04"]),
    ("sam-drop-self-term", B,
     "                    np.logical_or(coal_structure[coalition] == 1, coal_structure[coalition] == 0)\n                ]",
     "                    coal_structure[coalition] == 1\n                ]",
     ["C04"]),
    ("sam-skip-known-sub-min", B,
     "        upper_bound = min(np.min(game.get_lower_bounds()[known_super_coalitions] - game.get_lower_bounds()[complementary_coalitions]),\n                          np.min(game.get_known_values()[known_sub_coalitions]))",
     "        upper_bound = np.min(game.get_lower_bounds()[known_super_coalitions] - game.get_lower_bounds()[complementary_coalitions])",
     ["C04"]),
    ("cached-upper-keeps-smaller-stale", B,
     "        upper_bound = np.min(game.get_lower_bounds()[known_super_coalitions] - game.get_lower_bounds()[complementary_coalitions])\n        game.set_upper_bound(upper_bound, Coalition(coalition))\n\n\ndef compute_bounds_superadditive_monotone",
     "        upper_bound = np.min(game.get_lower_bounds()[known_super_coalitions] - game.get_lower_bounds()[complementary_coalitions])\n        if game.get_upper_bound(Coalition(coalition)) != 0 and game.get_upper_bound(Coalition(coalition)) < upper_bound:\n            continue\n        game.set_upper_bound(upper_bound, Coalition(coalition))\n\n\ndef compute_bounds_superadditive_monotone",
     ["C08"]),
    # --- exploitability / shapley / norms (C05-C07) ---------------------------------------------------------------
    ("shapley-weight-size-plus-one", "incomplete_cooperative/shapley.py",
     "    coalition_contributions = coalition_contribution_coefficients[list(map(\n        len, coalitions_without_player))]",
     "    coalition_contributions = coalition_contribution_coefficients[list(map(\n        lambda c: min(len(c) + 1, game.number_of_players - 1), coalitions_without_player))]",
     ["C05", "C06"]),
    ("maxgain-lower-on-own-coalitions-of-size-2", "incomplete_cooperative/exploitability.py",
     "        coalitions_with_player = (1 if player in coalition else 0 for coalition in all_coalitions(game))",
     "        coalitions_with_player = (1 if player in coalition and len(coalition) != 2 else 0 for coalition in all_coalitions(game))",
     ["C05"]),
    ("norms-swap-l2-linf", "incomplete_cooperative/norms.py",
     "l2_norm = partial(lp_norm, ord=2)\nl1_norm = partial(lp_norm, ord=1)\nlinf_norm = partial(lp_norm, ord=np.inf)",
     "l2_norm = partial(lp_norm, ord=np.inf)\nl1_norm = partial(lp_norm, ord=1)\nlinf_norm = partial(lp_norm, ord=2)",
     ["C07"]),
    # --- game object (C17, C08) -------------------------------------------------------------------------------------
    ("unset-keeps-bounds", "incomplete_cooperative/game.py",
     "        self._values[coalition.id, self._values_upper_index] = 0\n        self._values[coalition.id, self._values_lower_index] = 0\n        self._values[coalition.id, self._values_is_known_index] = 0",
     "        self._values[coalition.id, self._values_is_known_index] = 0",
     ["C17"]),
    ("bulk-upper-setter-no-known-mask", "incomplete_cooperative/game.py",
     "        relevant_positions = np.invert(self.are_values_known()) * self._get_coalition_map(coalitions, len(values))\n        np.copyto(self._values[:, self._values_upper_index], all_values, where=relevant_positions)",
     "        relevant_positions = self._get_coalition_map(coalitions, len(values))\n        np.copyto(self._values[:, self._values_upper_index], all_values, where=relevant_positions)",
     ["C17"]),
    ("copy-shares-table", "incomplete_cooperative/game.py",
     "        new._values = np.copy(self._values)",
     "        new._values = self._values",
     ["C17"]),
]


def sh(cmd, **kw):
    return subprocess.run(cmd, shell=True, text=True, capture_output=True, **kw)


def main() -> int:
    ap = argparse.ArgumentParser()
    ap.add_argument("--only", default="")
    ap.add_argument("--props", default="")
    ap.add_argument("--tier", default="quick")
    args = ap.parse_args()
    repo = os.environ.get("VERIF_REPO_SRC", "/repo")
    sh(f"git -C {repo} worktree remove --force {SCRATCH}")
    r = sh(f"git -C {repo} worktree add --detach {SCRATCH} HEAD")
    if r.returncode:
        print(r.stderr)
        return 2
    rows = []
    try:
        for name, file, old, new, expected in MUTANTS:
            if args.only and args.only not in name:
                continue
            path = SCRATCH / file
            src = path.read_text()
            if src.count(old) != 1:
                print(f"!! mutant {name}: anchor found {src.count(old)} times - skipped")
                rows.append((name, "ANCHOR-MISSING", {}))
                continue
            path.write_text(src.replace(old, new))
            props = [p for p in (args.props.split(",") if args.props else expected) if p]
            verdicts = {}
            for p in props:
                t0 = time.time()
                env = dict(os.environ, VERIF_REPO=str(SCRATCH))
                out = subprocess.run([str(VERIF / "check"), p, args.tier], text=True, capture_output=True, env=env, cwd=VERIF)
                caught = out.returncode == 1 and "VIOLATION" in out.stdout
                verdicts[p] = ("CAUGHT" if caught else f"missed(exit {out.returncode})") + f" {time.time() - t0:.0f}s"
                # replays written against a mutant are not findings about /repo: move them to the corpus
                for line in out.stdout.splitlines():
                    if line.startswith("VIOLATION") and "replay=" in line:
                        rp = VERIF / line.split("replay=")[1].strip()
                        if rp.exists():
                            dest = VERIF / "corpus" / p
                            dest.mkdir(parents=True, exist_ok=True)
                            rp.rename(dest / f"mutant-{name}.json")
                if out.returncode == 2:
                    print(out.stderr[-2000:])
            path.write_text(src)
            rows.append((name, "ok", verdicts))
            print(f"{name:45s} " + "  ".join(f"{p}:{v}" for p, v in verdicts.items()), flush=True)
    finally:
        sh(f"git -C {repo} worktree remove --force {SCRATCH}")
        # restore evidence of the unchanged tree is the caller's business (evidence files were rewritten by mutant runs)
    missed = [(n, p) for n, st, v in rows for p, x in v.items() if not x.startswith("CAUGHT")]
    print(json.dumps({"mutants": len(rows), "missed": missed}))
    return 0


if __name__ == "__main__":
    sys.exit(main())
