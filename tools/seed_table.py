"""Regenerate the seeded-change table in DESIGN.md (between the SEEDED_TABLE markers) from seeded/*/meta.json, MATRIX.json, INITIAL_RESULTS.json."""
import json, glob, re
from pathlib import Path
V = Path(__file__).resolve().parent.parent
init = json.loads((V / "seeded/INITIAL_RESULTS.json").read_text())
mat = json.loads((V / "seeded/MATRIX.json").read_text())
rows = ["| id | breaks | change | needs to manifest | first contact (own check, quick) | now | other checks (quick) |", "|---|---|---|---|---|---|---|"]
for mp in sorted(glob.glob(str(V / "seeded/*/meta.json"))):
    m = json.loads(Path(mp).read_text())
    sid, prop = m["seed_id"], m["breaks_property"]
    first = init.get(sid, {}).get("initial_quick_verdicts", {}).get(prop)
    first = "n/a (written after strengthening)" if first is None else ("caught" if first else "missed")
    now = mat.get(sid, {}).get(prop, "caught" if m.get("checks", {}).get(prop, {}).get("caught") else "?")
    others = ", ".join(f"{c}: {v}" for c, v in sorted(mat.get(sid, {}).items()) if c != prop) or "-"
    rows.append(f"| {sid} | {prop} | {m.get('change', '')} | {m.get('needs_to_manifest', '')} | {first} | {now} | {others} |")
table = "\n".join(rows)
p = V / "DESIGN.md"
s = p.read_text()
s = re.sub(r"<!-- SEEDED_TABLE_BEGIN -->.*?<!-- SEEDED_TABLE_END -->", lambda _m: "<!-- SEEDED_TABLE_BEGIN -->\n" + table + "\n<!-- SEEDED_TABLE_END -->", s, flags=re.S)
p.write_text(s)
print(len(rows) - 2, "rows")
