"""Write the prompts for one round of seeded changes (section 7.2 of DESIGN.md) and create the scratch worktrees.

    python3 tools/seed_prompts.py <round-number> <dir under /tmp> [Cxx ...]

Each prompt holds ONLY the property's text, the list of changes already taken for it (from seeded/*/meta.json) and the preferred
shape of this round (tools/seed_round_shapes.json) - nothing else from /verif.  Worktrees: <dir>/<Cxx> (detached HEAD of /repo)."""
import json, subprocess, sys
from pathlib import Path
V = Path(__file__).resolve().parent.parent
rnd, root = int(sys.argv[1]), Path(sys.argv[2])
only = sys.argv[3:]
props = {json.loads(l)["id"]: json.loads(l) for l in open(V / "properties.jsonl")}
tmpl = (V / "tools/seed_prompt_template.md").read_text()
shape = json.loads((V / "tools/seed_round_shapes.json").read_text())[str(rnd)]
root.mkdir(parents=True, exist_ok=True)
prefixes = ["S"] + [f"S{i}" for i in range(2, rnd)]
for pid, p in props.items():
    if only and pid not in only:
        continue
    wt = root / pid
    subprocess.run(f"git -C /repo worktree add -q --detach {wt} HEAD", shell=True, check=True)
    ms = [json.load(open(V / f"seeded/{pre}-{pid}/meta.json")) for pre in prefixes if (V / f"seeded/{pre}-{pid}/meta.json").exists()]
    text = (f"**{p['title']}**\n\n{p['statement']}\n\nScope (what it quantifies over): {p['quantifier']['text']}\n\n"
            f"Relevant source files: {', '.join(p['anchors']['files'])}")
    taken = "\n".join(f"{i + 1}. *{m['change']}* (manifests when: {m['needs_to_manifest']})." for i, m in enumerate(ms))
    extra = (f"\n\n## Already taken\n{len(ms)} engineers have already produced seeded changes for this property:\n{taken}\n"
             f"Yours must be DIFFERENT from all of them in mechanism.\n\n## Preferred shape this time\n{shape}\n"
             f"As before it must keep the existing tests green and need something specific to manifest.")
    (root / f"prompt_{pid}.md").write_text(tmpl.replace("__WT__", str(wt)).replace("__PROP__", text + extra))
print("prompts in", root)
