"""Regenerate MANIFEST.json from the property modules' metadata (run from /verif with the check's PYTHONPATH)."""
import importlib
import json
import pathlib
import sys

VERIF = pathlib.Path(__file__).resolve().parent.parent
sys.path.insert(0, str(VERIF))
props = [json.loads(l) for l in (VERIF / "properties.jsonl").read_text().splitlines() if l.strip()]
BASE = json.loads(pathlib.Path("/root/.vp/BASELINE.json").read_text())["cmd"] if pathlib.Path("/root/.vp/BASELINE.json").exists() else \
    "cd /repo && /venv/bin/python -m pytest -ra -q -p no:cacheprovider --timeout=900 --continue-on-collection-errors --junitxml=<file>"

checks, na = [], []
for p in props:
    pid = p["id"]
    try:
        mod = importlib.import_module(f"vp.props.{pid.lower()}")
    except ModuleNotFoundError as e:
        if f"vp.props.{pid.lower()}" not in str(e):
            raise
        na.append({"property_id": pid, "reason": "check not built yet in this round (designed in DESIGN.md section 4)"})
        continue
    checks.append({
        "property_id": pid,
        "quick_cmd": f"./check {pid} quick",
        "thorough_cmd": f"./check {pid} thorough",
        "evidence_file": f"/verif/evidence/{pid}.json",
        "replay_cmd_template": f"./check {pid} --replay {{path}}",
        "engine": "vp",
        "level_claimed": {"category": mod.LEVEL, "text": mod.LEVEL_TEXT, "design_ref": f"DESIGN.md section 4, {pid}"},
        "level_note": mod.LEVEL_NOTE,
        "technique": mod.TECHNIQUE,
    })

manifest = {
    "version": 1,
    "setup_cmd": "./check --setup",
    "hooks": {
        "guard": "INCOMPLETE_COOPERATIVE_VERIF",
        "enable": "no source hooks exist: all observation goes through public APIs, the after_reset callback of "
                  "evaluate() and harness-side patching of io/os; checks import /repo's working tree via PYTHONPATH",
        "baseline_off_cmd": BASE,
        "source_commits": [],
        "add_only": True,
    },
    "engines": [{
        "name": "vp", "path": "/verif/vp",
        "serves_properties": [c["property_id"] for c in checks],
        "kind_free_text": "property-based testing: Hypothesis 6.168 strategies and rule-based state machines, exhaustive "
                          "enumeration of small finite spaces, fault injection for C20; explicit reference oracles in vp/oracles.py",
    }],
    "checks": checks,
    "notes": "Every check: ./check <ID> quick|thorough (VERIF_SEED honoured), ./check <ID> --replay <file>. Exit 0 held / 1 VIOLATION / 2 harness error. "
             "Known and fixed findings: known_findings.json. Seeded breaking changes and which checks catch them: seeded/ and DESIGN.md.",
    "not_applicable": na,
}
(VERIF / "MANIFEST.json").write_text(json.dumps(manifest, indent=1) + "\n")
print(f"{len(checks)} checks, {len(na)} not claimed")
