"""Development aid: how often does a case strategy of a check hit a seeded change?

    VERIF_REPO=<changed tree> PYTHONPATH=<changed tree>:/verif:/verif/.deps /venv/bin/python -B tools/hitrate.py c13 "expected_cases(4,[1])" 40 [seed]

Prints the number of failing cases and the labels of the failing ones (first failure message each)."""
import collections, importlib, os, sys
from hypothesis import HealthCheck, given, seed, settings
mod = importlib.import_module(f"vp.props.{sys.argv[1]}")
strat = eval(sys.argv[2], vars(mod))
N = int(sys.argv[3])
sd = int(sys.argv[4]) if len(sys.argv) > 4 else 1
hits, tot = [], [0]


@seed(sd)
@settings(max_examples=N, database=None, deadline=None, suppress_health_check=list(HealthCheck))
@given(strat)
def t(case):
    r = mod.check_case(case)
    tot[0] += 1
    if r.failures:
        hits.append(r.failures[0][:160])


t()
print(f"{len(hits)} of {tot[0]} cases fail")
for m, c in collections.Counter(h.split("::")[0] for h in hits).most_common():
    print(" ", c, m)
for h in hits[:3]:
    print("  e.g.", h)
