"""Run every check on the unchanged tree for several seeds / tiers; report anything that is not 'exit 0, no VIOLATION'.

    python3 tools/sweep.py quick 1 2 3 7 11 12345
    python3 tools/sweep.py thorough 1
"""
import json, os, subprocess, sys, time
from pathlib import Path
VERIF = Path(__file__).resolve().parent.parent
tier = sys.argv[1]
seeds = sys.argv[2:] or ["1"]
ids = [c["property_id"] for c in json.loads((VERIF / "MANIFEST.json").read_text())["checks"]]
only = os.environ.get("ONLY", "")
if only:
    ids = [i for i in ids if i in only.split(",")]
bad = []
for seed in seeds:
    for pid in ids:
        t0 = time.time()
        r = subprocess.run([str(VERIF / "check"), pid, tier], text=True, capture_output=True, cwd=VERIF, env=dict(os.environ, VERIF_SEED=seed))
        ok = r.returncode == 0 and "VIOLATION" not in r.stdout
        line = [l for l in r.stdout.splitlines() if l.startswith(pid)][:1]
        print(f"seed={seed} {pid} {'ok' if ok else 'PROBLEM exit ' + str(r.returncode)} {time.time() - t0:.0f}s  {line[0] if line else ''}", flush=True)
        if not ok:
            bad.append((seed, pid, r.returncode))
            print(r.stdout[-1500:], r.stderr[-1500:], flush=True)
print("PROBLEMS:", bad)
