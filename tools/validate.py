"""Validate MANIFEST.json and every evidence file against the schemas (uses the tooling venv's jsonschema)."""
import json, sys, glob, jsonschema
ok = True
m = json.load(open('/verif/MANIFEST.json'))
jsonschema.validate(m, json.load(open('/root/.vp/MANIFEST.schema.json')))
print('manifest valid:', len(m['checks']), 'checks')
es = json.load(open('/root/.vp/EVIDENCE.schema.json'))
for f in sorted(glob.glob('/verif/evidence/*.json')):
    try:
        jsonschema.validate(json.load(open(f)), es)
    except Exception as e:
        ok = False; print('INVALID', f, str(e)[:300])
print('evidence ok' if ok else 'evidence problems')
sys.exit(0 if ok else 1)
