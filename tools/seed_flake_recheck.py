"""For seeded changes whose suite run showed broken stable tests: re-run exactly those test files with the patch (up to 3 times).
The stable tests in question (test_run_learn: test_random_is_random / test_found_optimal / test_better_than_random) are seeded from the
wall clock and fail now and then on the UNCHANGED tree too; a seed is confirmed when every 'broken' test passes in some re-run."""
import json, glob, os, subprocess, sys
import xml.etree.ElementTree as ET
from pathlib import Path
V = Path(__file__).resolve().parent.parent
for mp in sorted(glob.glob(str(V / "seeded/*/meta.json"))):
    m = json.loads(Path(mp).read_text())
    broken = m.get("suite", {}).get("broken_by_patch") or []
    if not broken or m.get("suite", {}).get("recheck"):
        continue
    sid = m["seed_id"]
    wt = f"/tmp/seedr-{sid}"
    subprocess.run(f"git -C /repo worktree remove --force {wt}", shell=True, capture_output=True)
    subprocess.run(f"git -C /repo worktree add --detach {wt} HEAD", shell=True, capture_output=True, check=True)
    try:
        subprocess.run(f"git -C {wt} apply {Path(mp).parent / 'patch.diff'}", shell=True, check=True)
        files = sorted({"incomplete_cooperative/tests/" + b.split("::")[0].split(".")[-2] + ".py" for b in broken})
        still = set(broken)
        runs = []
        for attempt in range(3):
            xml = f"/tmp/seedr-{sid}.xml"
            subprocess.run(f"cd {wt} && /venv/bin/python -m pytest -q -p no:cacheprovider --timeout=900 --junitxml={xml} {' '.join(files)} > /dev/null 2>&1",
                           shell=True, env=dict(os.environ, OMP_NUM_THREADS="1", MKL_NUM_THREADS="1"))
            passed = {tc.get("classname") + "::" + tc.get("name") for tc in ET.parse(xml).iter("testcase")
                      if not [c for c in tc if c.tag in ("failure", "error", "skipped")]}
            os.remove(xml)
            still -= passed
            runs.append(len(set(broken) - passed))
            if not still:
                break
        m["suite"]["recheck"] = {"files": files, "failed_per_rerun": runs, "never_passed": sorted(still)}
        m["confirmed"] = bool(m.get("demo_unchanged_exit") == 0 and m.get("demo_changed_exit") not in (0, None) and not still)
        Path(mp).write_text(json.dumps(m, indent=1))
        print(sid, "rerun failures per attempt:", runs, "never passed:", sorted(still))
    finally:
        subprocess.run(f"git -C /repo worktree remove --force {wt}", shell=True, capture_output=True)
