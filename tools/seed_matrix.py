"""Run related quick checks against every kept seeded change; write seeded/MATRIX.json (catch matrix)."""
import json, os, subprocess, sys, time
from pathlib import Path
VERIF = Path(__file__).resolve().parent.parent
REL = {"S-C01": ["C01", "C08", "C03", "C09"], "S-C02": ["C02", "C01", "C03", "C08"], "S-C03": ["C03", "C02", "C01"],
       "S-C04": ["C04", "C08", "C07"], "S-C05": ["C05", "C07", "C09"], "S-C06": ["C06", "C05"], "S-C07": ["C07", "C01", "C02", "C03"],
       "S-C08": ["C08", "C17", "C01"], "S-C09": ["C09", "C08", "C13"], "S-C10": ["C10"], "S-C11": ["C11"], "S-C12": ["C12"],
       "S-C13": ["C13"], "S-C14": ["C14"], "S-C15": ["C15", "C09"], "S-C16": ["C16"], "S-C17": ["C17", "C08"], "S-C18": ["C18", "C10"],
       "S-C19": ["C19"], "S-C20": ["C20", "C19"],
       "S2-C01": ["C01", "C02", "C03", "C07"], "S2-C02": ["C02", "C01", "C03"], "S2-C03": ["C03", "C01", "C08"], "S2-C04": ["C04"],
       "S2-C05": ["C05", "C07", "C09"], "S2-C06": ["C06", "C05"], "S2-C07": ["C07", "C09"], "S2-C08": ["C08", "C09"], "S2-C09": ["C09", "C08"],
       "S2-C10": ["C10", "C09"], "S2-C11": ["C11"], "S2-C12": ["C12", "C09", "C13"], "S2-C13": ["C13", "C12"], "S2-C14": ["C14"],
       "S2-C15": ["C15", "C09"], "S2-C16": ["C16"], "S2-C17": ["C17", "C08"], "S2-C18": ["C18", "C10"], "S2-C19": ["C19"], "S2-C20": ["C20", "C19"],
       "S3-C01": ["C01", "C08", "C09", "C17"], "S3-C02": ["C02", "C01", "C03"], "S3-C03": ["C03", "C01", "C08"], "S3-C04": ["C04", "C08"],
       "S3-C05": ["C05", "C07", "C09"], "S3-C06": ["C06", "C05"], "S3-C07": ["C07", "C01", "C09"], "S3-C08": ["C08", "C17", "C03"],
       "S3-C09": ["C09", "C08", "C12"], "S3-C10": ["C10", "C15"], "S3-C11": ["C11", "C13"], "S3-C12": ["C12"], "S3-C13": ["C13", "C12"],
       "S3-C14": ["C14"], "S3-C15": ["C15", "C17", "C09"], "S3-C16": ["C16", "C09"], "S3-C17": ["C17", "C08"], "S3-C18": ["C18", "C10"],
       "S3-C19": ["C19"], "S3-C20": ["C20", "C19"],
       "S4-C01": ["C01", "C02", "C03"], "S4-C02": ["C02", "C01", "C03"], "S4-C03": ["C03", "C08"], "S4-C04": ["C04", "C07"], "S4-C05": ["C05"],
       "S4-C06": ["C06", "C05"], "S4-C07": ["C07", "C04", "C09"], "S4-C08": ["C08", "C03", "C09"], "S4-C09": ["C09", "C12"], "S4-C10": ["C10"],
       "S4-C11": ["C11"], "S4-C12": ["C12", "C09"], "S4-C13": ["C13"], "S4-C14": ["C14"], "S4-C15": ["C15"], "S4-C16": ["C16"],
       "S4-C17": ["C17"], "S4-C18": ["C18", "C03"], "S4-C19": ["C19"], "S4-C20": ["C20"],
       "S5-C01": ["C01", "C08", "C11"], "S5-C02": ["C02", "C03", "C01"], "S5-C03": ["C03", "C08"], "S5-C04": ["C04", "C18", "C01"], "S5-C05": ["C05", "C07", "C12"],
       "S5-C06": ["C06", "C18"], "S5-C07": ["C07", "C05", "C06"], "S5-C08": ["C08", "C17"], "S5-C09": ["C09", "C15"], "S5-C10": ["C10"], "S5-C11": ["C11", "C13"],
       "S5-C12": ["C12"], "S5-C13": ["C13"], "S5-C14": ["C14", "C18"], "S5-C15": ["C15", "C09"], "S5-C16": ["C16", "C09"], "S5-C17": ["C17", "C08"],
       "S5-C18": ["C18"], "S5-C19": ["C19"], "S5-C20": ["C20", "C19"],
       "S6-C01": ["C01", "C02", "C08"], "S6-C02": ["C02", "C01"], "S6-C03": ["C03", "C01", "C02"], "S6-C04": ["C04", "C07"], "S6-C05": ["C05", "C06"],
       "S6-C06": ["C06", "C05"], "S6-C07": ["C07", "C01", "C02"], "S6-C08": ["C08", "C09"], "S6-C09": ["C09"], "S6-C10": ["C10"], "S6-C11": ["C11"],
       "S6-C12": ["C12", "C09", "C08"], "S6-C13": ["C13"], "S6-C14": ["C14"], "S6-C15": ["C15", "C09"], "S6-C16": ["C16", "C09"], "S6-C17": ["C17", "C08"], "S6-C18": ["C18"],
       "S6-C19": ["C19"], "S6-C20": ["C20", "C19"],
       "S7-C01": ["C01", "C03", "C08"], "S7-C02": ["C02", "C03", "C01"], "S7-C03": ["C03", "C02"], "S7-C04": ["C04", "C08"], "S7-C05": ["C05", "C07"],
       "S7-C06": ["C06", "C05"], "S7-C07": ["C07", "C02", "C03"], "S7-C08": ["C08", "C04", "C09"], "S7-C09": ["C09", "C15"], "S7-C10": ["C10"],
       "S7-C11": ["C11", "C13"], "S7-C12": ["C12"], "S7-C13": ["C13"], "S7-C14": ["C14"], "S7-C15": ["C15", "C09"], "S7-C16": ["C16"],
       "S7-C17": ["C17", "C08"], "S7-C18": ["C18", "C10"], "S7-C19": ["C19", "C20"], "S7-C20": ["C20", "C19"],
       "S8-C01": ["C01", "C18"], "S8-C02": ["C02", "C03", "C07"], "S8-C03": ["C03", "C02", "C01"], "S8-C04": ["C04"], "S8-C05": ["C05", "C07"],
       "S8-C06": ["C06"], "S8-C07": ["C07", "C01", "C04"], "S8-C08": ["C08", "C03", "C09"], "S8-C09": ["C09"], "S8-C10": ["C10", "C12"],
       "S8-C11": ["C11"], "S8-C12": ["C12", "C10"], "S8-C13": ["C13"], "S8-C14": ["C14"], "S8-C15": ["C15"], "S8-C16": ["C16", "C09"],
       "S8-C17": ["C17"], "S8-C18": ["C18", "C01"], "S8-C19": ["C19"], "S8-C20": ["C20", "C19"]}
only = sys.argv[1:] 
out = {}
mp = VERIF / "seeded" / "MATRIX.json"
if mp.exists():
    out = json.loads(mp.read_text())
for sid, checks in REL.items():
    if only and sid not in only:
        continue
    d = VERIF / "seeded" / sid
    if not (d / "patch.diff").exists():
        continue
    wt = f"/tmp/seedm-{sid}"
    subprocess.run(f"git -C /repo worktree remove --force {wt}", shell=True, capture_output=True)
    subprocess.run(f"git -C /repo worktree add --detach {wt} HEAD", shell=True, capture_output=True, check=True)
    try:
        subprocess.run(f"git -C {wt} apply {d / 'patch.diff'}", shell=True, check=True)
        row = {}
        for c in checks:
            t0 = time.time()
            r = subprocess.run([str(VERIF / "check"), c, "quick"], text=True, capture_output=True, cwd=VERIF, env=dict(os.environ, VERIF_REPO=wt))
            caught = r.returncode == 1 and "VIOLATION" in r.stdout
            row[c] = "caught" if caught else ("missed" if r.returncode == 0 else f"harness-error({r.returncode})")
            for line in r.stdout.splitlines():
                if line.startswith("VIOLATION") and "replay=" in line:
                    rp = VERIF / line.split("replay=")[1].strip()
                    if rp.exists():
                        dest = VERIF / "corpus" / c
                        dest.mkdir(parents=True, exist_ok=True)
                        rp.rename(dest / f"seeded-{sid}.json")
            print(sid, c, row[c], f"{time.time()-t0:.0f}s", flush=True)
        out[sid] = row
        mp.write_text(json.dumps(out, indent=1, sort_keys=True))
    finally:
        subprocess.run(f"git -C /repo worktree remove --force {wt}", shell=True, capture_output=True)
