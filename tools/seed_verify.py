"""Confirm a seeded breaking change and run the checks against it.

    python3 tools/seed_verify.py <seed-dir with patch.diff + demo.py> <ID-for-/verif/seeded> <property> [--checks C01,C03] [--tier quick] [--skip-suite]

Steps (all in a fresh scratch worktree of /repo under /tmp, removed afterwards; /repo is never modified):
 1. demo.py on the unchanged tree must exit 0;
 2. apply patch.diff; demo.py must exit non-zero;
 3. the repository's pinned test suite (BASELINE.json command) with the patch: every stable_pass test must still pass;
 4. run the listed checks (default: the property's own check) with VERIF_REPO pointing at the patched worktree;
 5. write /verif/seeded/<ID>/{patch.diff, demo.py, meta.json}.
"""
from __future__ import annotations

import argparse
import json
import os
import shutil
import subprocess
import sys
import time
import xml.etree.ElementTree as ET
from pathlib import Path

VERIF = Path(__file__).resolve().parent.parent


def sh(cmd, **kw):
    return subprocess.run(cmd, shell=True, text=True, capture_output=True, **kw)


def main() -> int:
    ap = argparse.ArgumentParser()
    ap.add_argument("seed_dir")
    ap.add_argument("seed_id")
    ap.add_argument("prop")
    ap.add_argument("--checks", default="")
    ap.add_argument("--tier", default="quick")
    ap.add_argument("--skip-suite", action="store_true")
    ap.add_argument("--needs", default="")
    a = ap.parse_args()
    seed = Path(a.seed_dir)
    wt = Path(f"/tmp/seedv-{a.seed_id}")
    sh(f"git -C /repo worktree remove --force {wt}")
    r = sh(f"git -C /repo worktree add --detach {wt} HEAD")
    if r.returncode:
        print(r.stderr)
        return 2
    env = dict(os.environ, PYTHONPATH=str(wt), OMP_NUM_THREADS="1", MKL_NUM_THREADS="1", MPLBACKEND="Agg")
    meta = {"seed_id": a.seed_id, "breaks_property": a.prop, "ran": []}
    try:
        demo = seed / "demo.py"
        r0 = subprocess.run(["/venv/bin/python", "-B", str(demo)], env=env, cwd=wt, capture_output=True, text=True)
        meta["demo_unchanged_exit"] = r0.returncode
        ap_ = sh(f"git -C {wt} apply {seed / 'patch.diff'}")
        if ap_.returncode:
            print("patch does not apply:", ap_.stderr)
            return 2
        r1 = subprocess.run(["/venv/bin/python", "-B", str(demo)], env=env, cwd=wt, capture_output=True, text=True)
        meta["demo_changed_exit"] = r1.returncode
        meta["demo_changed_tail"] = (r1.stdout + r1.stderr)[-400:]
        print(f"demo: unchanged exit {r0.returncode}, changed exit {r1.returncode}")
        if r0.returncode != 0 or r1.returncode == 0:
            print("!! demonstration does not discriminate")
            print((r0.stdout + r0.stderr)[-800:])
            meta["confirmed"] = False
        else:
            meta["confirmed"] = True
        if not a.skip_suite:
            t0 = time.time()
            xml = f"/tmp/seedv-{a.seed_id}.xml"
            subprocess.run(f"cd {wt} && /venv/bin/python -m pytest -q -p no:cacheprovider --timeout=900 --continue-on-collection-errors "
                           f"--junitxml={xml} > /tmp/seedv-{a.seed_id}.log 2>&1", shell=True, env=dict(os.environ, OMP_NUM_THREADS="1", MKL_NUM_THREADS="1"))
            base = json.load(open("/root/.vp/BASELINE.json"))
            passed = set()
            for tc in ET.parse(xml).iter("testcase"):
                if not [c for c in tc if c.tag in ("failure", "error", "skipped")]:
                    passed.add(tc.get("classname") + "::" + tc.get("name"))
            broken = sorted(set(base["stable_pass"]) - passed)
            meta["suite"] = {"stable_pass_total": len(base["stable_pass"]), "broken_by_patch": broken[:10], "wall_s": round(time.time() - t0)}
            print(f"suite: {len(broken)} of {len(base['stable_pass'])} stable tests broken by the patch ({time.time() - t0:.0f}s)")
            os.remove(xml)
            if broken:
                meta["confirmed"] = False
        checks = [c for c in (a.checks.split(",") if a.checks else [a.prop]) if c]
        verdicts = {}
        for c in checks:
            t0 = time.time()
            out = subprocess.run([str(VERIF / "check"), c, a.tier], text=True, capture_output=True, cwd=VERIF,
                                 env=dict(os.environ, VERIF_REPO=str(wt)))
            caught = out.returncode == 1 and "VIOLATION" in out.stdout
            verdicts[c] = {"caught": caught, "exit": out.returncode, "wall_s": round(time.time() - t0, 1),
                           "first_lines": [l for l in out.stdout.splitlines() if not l.startswith("KNOWN")][:4]}
            for line in out.stdout.splitlines():
                if line.startswith("VIOLATION") and "replay=" in line:
                    rp = VERIF / line.split("replay=")[1].strip()
                    if rp.exists():
                        dest = VERIF / "corpus" / c
                        dest.mkdir(parents=True, exist_ok=True)
                        rp.rename(dest / f"seeded-{a.seed_id}.json")
            print(f"check {c} {a.tier}: {'CAUGHT' if caught else 'missed'} (exit {out.returncode}, {time.time() - t0:.0f}s)")
            if out.returncode == 2:
                print(out.stderr[-1500:])
        meta["checks"] = verdicts
        meta["needs_to_manifest"] = a.needs
        dest = VERIF / "seeded" / a.seed_id
        dest.mkdir(parents=True, exist_ok=True)
        if seed.resolve() != dest.resolve():
            shutil.copy(seed / "patch.diff", dest / "patch.diff")
            shutil.copy(demo, dest / "demo.py")
            if (seed / "notes.md").exists():
                shutil.copy(seed / "notes.md", dest / "notes.md")
        old = {}
        if (dest / "meta.json").exists():
            old = json.loads((dest / "meta.json").read_text())
            old_checks = old.get("checks", {})
            old_checks.update(verdicts)
            meta["checks"] = old_checks
            for k in ("suite", "needs_to_manifest", "change"):
                if k not in meta or not meta[k]:
                    if k in old:
                        meta[k] = old[k]
        meta["ran"] = [f"demo.py on unchanged worktree (exit {r0.returncode}) and with patch applied (exit {r1.returncode})",
                       "pinned test suite with the patch" if not a.skip_suite else "pinned test suite: see earlier run",
                       f"./check <ID> {a.tier} with VERIF_REPO=<patched worktree> for {checks}"]
        (dest / "meta.json").write_text(json.dumps(meta, indent=1))
    finally:
        sh(f"git -C /repo worktree remove --force {wt}")
    return 0


if __name__ == "__main__":
    sys.exit(main())
